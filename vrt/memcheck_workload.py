"""Small workload run under valgrind memcheck by C09's thorough tier (python -m vrt.memcheck_workload)."""
import sys

from . import boot


def main():
    boot.boot()
    import numpy
    from mlinsights.mlmodel import _piecewise_tree_regression_common as cm
    from mlinsights.mlmodel.piecewise_tree_regression_criterion import SimpleRegressorCriterion
    from mlinsights.mlmodel.piecewise_tree_regression_criterion_fast import SimpleRegressorCriterionFast
    from mlinsights.mlmodel.piecewise_tree_regression_criterion_linear import LinearRegressorCriterion
    from mlinsights.mlmodel.direct_blas_lapack import dgelss
    from mlinsights.mlmodel import PiecewiseTreeRegressor
    from mlinsights.mltree import digitize2tree
    rng = numpy.random.RandomState(0)
    triples = 0
    for n in (1, 2, 5, 7):
        y = numpy.ascontiguousarray(rng.randn(n, 1))
        X = numpy.ascontiguousarray(rng.randn(n, 2))
        for w in (numpy.ones(n), rng.rand(n) + 0.1):
            o = rng.permutation(n).astype(numpy.intp)
            crits = [SimpleRegressorCriterion(1, n), SimpleRegressorCriterionFast(1, n)]
            if (w == 1).all():
                crits.append(LinearRegressorCriterion(1, X))
            for c in crits:
                for s in range(n):
                    for e in range(s + 1, n + 1):
                        cm._test_criterion_init(c, y, w, float(w.sum()), o, s, e)
                        cm._test_criterion_node_value(c)
                        cm._test_criterion_node_impurity(c)
                        for p in range(s, e + 1):
                            cm._test_criterion_update(c, p)
                            a, b = cm._test_criterion_node_impurity_children(c)
                            cm._test_criterion_proxy_impurity_improvement(c)
                            cm._test_criterion_impurity_improvement(c, 1.0, a, b)
                            triples += 1
    fits = 0
    for n, d in ((1, 1), (3, 5), (17, 2), (60, 3)):
        X = rng.randn(n, d)
        if n == 3:
            X[1] = X[0]
        y = rng.randn(n)
        for crit in ("mselin", "simple"):
            m = PiecewiseTreeRegressor(criterion=crit, max_depth=3, random_state=0).fit(X, y)
            m.predict(X)
            fits += 1
    for rows, cols in ((5, 2), (3, 3), (6, 1)):
        A = rng.randn(rows, cols)
        B = rng.randn(rows, 1)
        dgelss(numpy.ascontiguousarray(A.T.copy()), B)
    for bins in ([0.5], [0.0, 1.0, 2.5], list(range(9, 0, -1))):
        t = digitize2tree(numpy.array(bins, dtype=float), right=True)
        t.predict(numpy.array([[0.25], [1.0], [99.0]]))
    print("MEMCHECK-WORKLOAD triples=%d fits=%d" % (triples, fits))
    return 0


if __name__ == "__main__":
    sys.exit(main())
