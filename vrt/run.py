"""Orchestrator: ./check <PROP> [--tier quick|thorough] [--seed N] [--replay file]

Splits the property's case list into shards, runs each shard in its own
subprocess (never multiprocessing.Pool: a dead child hangs it), aggregates
what the monitors observed, decides a three-valued verdict and writes
evidence/<PROP>.json.

 exit 0  property held on everything explored (known findings are printed, not counted)
 exit 1  VIOLATION property=<id> replay=<path>   (a violation not listed in known_findings.json)
 exit 2  INCONCLUSIVE property=<id> reason=...   (a deciding monitor observed nothing, loader
         could not prove the origin of the code, harness error)
"""
import argparse
import collections
import importlib
import json
import os
import shutil
import signal
import subprocess
import sys
import time
from concurrent.futures import ThreadPoolExecutor

VERIF = os.path.dirname(os.path.dirname(os.path.abspath(__file__)))
sys.path.insert(0, VERIF)

from vrt import build_ext  # noqa: E402
from vrt.ctx import jsonable  # noqa: E402

KNOWN_FILE = os.path.join(VERIF, "known_findings.json")
ASAN_PRELOAD = "/usr/lib/x86_64-linux-gnu/libasan.so.8:/usr/lib/x86_64-linux-gnu/libubsan.so.1"


def load_known(prop):
    try:
        with open(KNOWN_FILE) as f:
            data = json.load(f)
    except FileNotFoundError:
        return {}, []
    known = {}
    fixed = []
    for e in data.get("findings", []):
        if e.get("property") != prop:
            continue
        if e.get("status") == "known":
            known[e["key"]] = e
        elif e.get("status") == "fixed":
            fixed.append(e)
    return known, fixed


def worker_env(flavour, workdir, shard_no):
    env = dict(os.environ)
    env["PYTHONPATH"] = VERIF
    env["PYTHONHASHSEED"] = "0"
    env["OMP_NUM_THREADS"] = "1"
    env["OPENBLAS_NUM_THREADS"] = "1"
    env["MKL_NUM_THREADS"] = "1"
    env["VERIF_EXT_FLAVOUR"] = flavour
    env["PYTHONDONTWRITEBYTECODE"] = "1"
    env["MPLBACKEND"] = "Agg"
    if flavour == "asan":
        env["LD_PRELOAD"] = ASAN_PRELOAD
        env["ASAN_OPTIONS"] = ("detect_leaks=0:halt_on_error=0:abort_on_error=0:"
                               "allocator_may_return_null=1:handle_segv=1:"
                               "log_path=%s/asan.%d" % (workdir, shard_no))
        env["UBSAN_OPTIONS"] = ("print_stacktrace=1:halt_on_error=0:"
                                "log_path=%s/ubsan.%d" % (workdir, shard_no))
        env["PYTHONMALLOC"] = "malloc"
    return env


def run_shard(prop, shard, workdir, no, timeout):
    sp = os.path.join(workdir, "shard%d.json" % no)
    op = os.path.join(workdir, "out%d.jsonl" % no)
    with open(sp, "w") as f:
        json.dump(shard, f)
    cmd = [sys.executable, "-m", "vrt.worker", prop, sp, op]
    env = worker_env(shard.get("flavour", "plain"), workdir, no)
    t0 = time.time()
    info = {"no": no, "rc": None, "timeout": False}
    try:
        p = subprocess.run(cmd, cwd=VERIF, env=env, timeout=timeout,
                           stdout=subprocess.PIPE, stderr=subprocess.STDOUT)
        info["rc"] = p.returncode
        info["tail"] = p.stdout.decode("utf8", "replace")[-3000:]
    except subprocess.TimeoutExpired as e:
        info["timeout"] = True
        info["tail"] = (e.stdout or b"").decode("utf8", "replace")[-1500:]
    info["wall"] = time.time() - t0
    recs = []
    if os.path.exists(op):
        with open(op) as f:
            for line in f:
                try:
                    recs.append(json.loads(line))
                except ValueError:
                    pass
    info["recs"] = recs
    return info


def parse_sanitizer_logs(workdir):
    """Return (reports_with_mlinsights_frame, foreign_reports) from asan.* / ubsan.* logs."""
    ours, foreign = [], 0
    for fn in sorted(os.listdir(workdir)):
        if not (fn.startswith("asan.") or fn.startswith("ubsan.")):
            continue
        with open(os.path.join(workdir, fn), errors="replace") as f:
            text = f.read()
        blocks = []
        cur = None
        for line in text.splitlines():
            if "ERROR: AddressSanitizer" in line or "runtime error:" in line:
                if cur:
                    blocks.append(cur)
                cur = [line]
            elif cur is not None:
                cur.append(line)
        if cur:
            blocks.append(cur)
        for b in blocks:
            body = "\n".join(b[:60])
            if "mlinsights" in body or "piecewise_tree_regression" in body \
                    or "direct_blas_lapack" in body or "_tree_digitize" in body:
                ours.append(body[:2500])
            else:
                foreign += 1
    return ours, foreign


def anchor_coverage(prop, repo, seen):
    """Executed / executable statements of the property's anchored Python files (from properties.jsonl)."""
    from vrt import linecov
    files = []
    with open(os.path.join(VERIF, "properties.jsonl")) as f:
        for line in f:
            p = json.loads(line)
            if p["id"] == prop:
                files = [x for x in p["anchors"]["files"] if x.endswith(".py")]
    out = {}
    for rel in files:
        key = rel[len("mlinsights/"):] if rel.startswith("mlinsights/") else rel
        exe = linecov.executable_lines(os.path.join(repo, rel))
        got = set(seen.get(key, ())) & exe
        out[rel] = {"executable_statements": len(exe), "executed": len(got),
                    "missed": linecov.ranges(exe - got)[:40]}
    return out


def main(argv=None):
    ap = argparse.ArgumentParser()
    ap.add_argument("prop")
    ap.add_argument("--tier", default=os.environ.get("VERIF_TIER", "quick"),
                    choices=["quick", "thorough"])
    ap.add_argument("--seed", type=int, default=int(os.environ.get("VERIF_SEED", "0")))
    ap.add_argument("--replay")
    ap.add_argument("--jobs", type=int, default=int(os.environ.get("VERIF_JOBS", "16")))
    ap.add_argument("--keep-work", action="store_true")
    ap.add_argument("--only", help="substring filter on case ids (debugging)")
    ap.add_argument("--no-evidence", action="store_true")
    args = ap.parse_args(argv)
    prop = args.prop.upper()
    t_start = time.time()
    mod = importlib.import_module("vrt.props.%s" % prop.lower())

    if args.replay:
        with open(args.replay) as f:
            rp = json.load(f)
        cases = [rp["case"]]
        args.no_evidence = True
    else:
        cases = mod.cases(args.tier, args.seed)
        if args.only:
            cases = [c for c in cases if args.only in str(c.get("id"))]
    for i, c in enumerate(cases):
        c.setdefault("id", "%s-%d" % (c.get("gen", "case"), i))

    workdir = os.path.join(VERIF, ".work", "%s-%s-%d" % (prop, args.tier, os.getpid()))
    os.makedirs(workdir, exist_ok=True)
    repo = build_ext.repo_root()

    # builds (from the current working tree; cached by source hash)
    flavours = sorted({c.get("flavour", "plain") for c in cases})
    build_err = None
    if getattr(mod, "NEED_EXT", True):
        for fl in flavours:
            try:
                build_ext.build(repo, fl)
            except Exception as e:
                build_err = "%s: %s" % (fl, str(e)[-1500:])

    # shards: one flavour per shard, cases dealt round-robin
    shards = []
    by_fl = collections.defaultdict(list)
    for c in cases:
        by_fl[c.get("flavour", "plain")].append(c)
    jobs = max(1, args.jobs)
    mult = getattr(mod, "SHARDS_PER_JOB", 1 if args.tier == "quick" else 2)
    for fl, cs in by_fl.items():
        n = max(1, min(len(cs), int(round(jobs * mult * len(cs) / max(1, len(cases)))) or 1))
        for k in range(n):
            part = cs[k::n]
            if part:
                shards.append({"tier": args.tier, "flavour": fl, "cases": part,
                               "case_timeout": getattr(mod, "CASE_TIMEOUT", 120)})
    shard_timeout = getattr(mod, "SHARD_TIMEOUT", {"quick": 600, "thorough": 3600})[args.tier]

    infos = []
    if build_err is None:
        with ThreadPoolExecutor(max_workers=jobs) as ex:
            futs = [ex.submit(run_shard, prop, sh, workdir, i, shard_timeout)
                    for i, sh in enumerate(shards)]
            infos = [f.result() for f in futs]

    # ---- aggregate
    counters = collections.Counter()
    classes = collections.Counter()
    notes = collections.Counter()
    status = collections.Counter()
    nontrivial = set()
    violations = []
    samples = []
    extras = []
    fatal = []
    harness_errors = []
    crashes = []
    ncases = 0
    origin_ok = 0
    linecov_all = {}
    for info in infos:
        started = None
        for r in info["recs"]:
            if "fatal" in r:
                fatal.append(r)
            elif "start" in r:
                started = r["start"]
            elif "origin_ok" in r:
                origin_ok += 1
            elif "linecov" in r:
                for fn, lines in r["linecov"].items():
                    linecov_all.setdefault(fn, set()).update(lines)
            elif "case" in r:
                started = None
                ncases += 1
                counters.update(r["counters"])
                classes.update(r["classes"])
                notes.update(r["notes"])
                nontrivial.update(r["nontrivial"])
                violations.extend(r["violations"])
                status[r["status"]] += 1
                if r["samples"] and len(samples) < 6:
                    samples.extend(r["samples"][:1])
                if r.get("extra"):
                    extras.append(r["extra"])
                if r["status"] == "harness_error":
                    harness_errors.append(r)
        if started is not None or (info["rc"] not in (0, None) and not any("fatal" in r for r in info["recs"])):
            crashes.append({"case_id": started, "rc": info["rc"], "timeout": info["timeout"],
                            "tail": info.get("tail", "")[-1500:], "shard": info["no"]})

    # harness errors whose traceback goes through the library are violations
    # ("the call raised on a valid input"); errors purely inside the harness are inconclusive
    pure_harness = []
    for r in harness_errors:
        tb = r["error"].get("full", "")
        if os.path.join(repo, "mlinsights") in tb:
            frames = [l.strip() for l in tb.splitlines() if os.path.join(repo, "mlinsights") in l]
            where = frames[-1].split(",")[0].rsplit("/", 1)[-1].strip('"') if frames else "?"
            violations.append({"property": prop, "key": "%s/unexpected-exception/%s/%s" % (
                prop, where, r["error"]["type"]),
                "msg": "library raised on an input of the property's domain: %s" % r["error"]["msg"],
                "detail": {"tb": r["error"]["tb"]}, "case": r["case"]})
        else:
            pure_harness.append(r)

    # native crashes (signal) are violations for the compiled code; other deaths inconclusive
    inconclusive = []
    for c in crashes:
        rc = c["rc"]
        if rc is not None and rc < 0 and -rc in (signal.SIGSEGV, signal.SIGABRT, signal.SIGBUS,
                                                 signal.SIGFPE, signal.SIGILL):
            case = next((x for sh in shards for x in sh["cases"] if x.get("id") == c["case_id"]), None)
            violations.append({"property": prop, "key": "%s/native-crash" % prop,
                               "msg": "worker died with signal %d while running case %s" % (-rc, c["case_id"]),
                               "detail": {"tail": c["tail"]}, "case": case})
        else:
            inconclusive.append("worker shard %s ended rc=%s timeout=%s at case %s: %s" % (
                c["shard"], rc, c["timeout"], c["case_id"], c["tail"][-300:].replace("\n", " | ")))

    san_reports, san_foreign = [], 0
    if "asan" in flavours:
        san_reports, san_foreign = parse_sanitizer_logs(workdir)
        seen = set()
        for rep in san_reports:
            lines = [l for l in rep.splitlines() if "mlinsights" in l or "piecewise" in l
                     or "direct_blas" in l or "_tree_digitize" in l]
            sig = (rep.splitlines()[0].split("==")[-1][:80], lines[0][:120] if lines else "")
            if sig in seen:
                continue
            seen.add(sig)
            violations.append({"property": prop, "key": "%s/sanitizer-report" % prop,
                               "msg": rep.splitlines()[0][:300], "detail": {"report": rep},
                               "case": {"id": "sanitizer-log"}})
        counters["sanitizer_reports_mlinsights"] += len(san_reports)
        counters["sanitizer_reports_foreign"] += san_foreign

    # ---- classify violations
    known, fixed = load_known(prop)
    known_seen = collections.Counter()
    unknown = []
    for v in violations:
        k = v["key"]
        if k in known:
            known_seen[k] += 1
        else:
            unknown.append(v)

    wall = time.time() - t_start
    required = list(getattr(mod, "REQUIRED", []))
    if args.replay or args.only:
        required = []
    missing = [m for m in required if counters.get(m, 0) == 0]
    reasons = []
    if build_err:
        reasons.append("extension build failed: %s" % build_err[-400:])
    if fatal:
        reasons.append("loader: %s" % fatal[0].get("msg", "")[:400])
    if not build_err and not fatal and origin_ok < len(shards) and not crashes:
        reasons.append("origin assertion missing for %d shards" % (len(shards) - origin_ok))
    if missing:
        reasons.append("monitors never reached: %s" % ",".join(missing))
    if pure_harness:
        e = pure_harness[0]["error"]
        reasons.append("harness error in %d cases, first: %s %s @ %s" % (
            len(pure_harness), e["type"], e["msg"][:200], e["tb"][-2:]))
    reasons.extend(inconclusive)
    n_timeout = status.get("timeout", 0) + status.get("memory", 0)
    if ncases and n_timeout > max(2, 0.05 * ncases):
        reasons.append("%d of %d cases hit the wall-clock watchdog" % (n_timeout, ncases))

    # ---- report
    print("== %s tier=%s seed=%d repo=%s cases=%d shards=%d wall=%.1fs" % (
        prop, args.tier, args.seed, repo, ncases, len(shards), wall))
    print("   monitors: " + ", ".join("%s=%d" % kv for kv in sorted(counters.items())))
    if classes:
        print("   input classes: " + ", ".join("%s=%d" % kv for kv in sorted(classes.items())))
    if notes:
        print("   not judged: " + ", ".join("%s=%d" % kv for kv in sorted(notes.items())))
    print("   distinct non-trivial cases: %d; status: %s" % (len(nontrivial), dict(status)))
    for k, e in sorted(known.items()):
        print("KNOWN-FINDING: property=%s %s: %s (observed %d times in this run)" % (
            prop, k, e.get("what_fails", ""), known_seen.get(k, 0)))

    rc = 0
    replay_paths = []
    if unknown:
        rdir = os.path.join(VERIF, "replays")
        os.makedirs(rdir, exist_ok=True)
        by_key = collections.OrderedDict()
        for v in unknown:
            by_key.setdefault(v["key"], []).append(v)
        for n, (k, vs) in enumerate(by_key.items()):
            if n >= 12:
                break
            v = vs[0]
            path = os.path.join(rdir, "%s-%s-s%d-%d.json" % (prop, args.tier, args.seed, n))
            with open(path, "w") as f:
                json.dump({"property": prop, "key": k, "count": len(vs), "msg": v["msg"],
                           "detail": v["detail"], "case": v["case"], "tier": args.tier,
                           "seed": args.seed}, f, indent=1, default=repr)
            replay_paths.append(path)
            print("VIOLATION property=%s replay=%s" % (prop, path))
            print("   key=%s count=%d: %s" % (k, len(vs), v["msg"][:400]))
        rc = 1
    elif reasons:
        for r in reasons:
            print("INCONCLUSIVE property=%s reason=%s" % (prop, r))
        rc = 2

    # ---- evidence
    if not args.no_evidence:
        cov = {
            "evaluations": int(sum(counters.values())) if getattr(mod, "EVAL_FROM_COUNTERS", False)
            else int(getattr(mod, "evaluations", lambda c, n: n)(counters, ncases)),
            "distinct_nontrivial": len(nontrivial),
            "rule": getattr(mod, "RULE", ""),
            "samples": samples[:6] or [jsonable(c) for c in cases[:2]],
            "cases_run": ncases,
            "case_status": dict(status),
            "monitor_counters": dict(sorted(counters.items())),
            "input_classes": dict(sorted(classes.items())),
            "not_judged": dict(sorted(notes.items())),
            "known_findings_observed": dict(known_seen),
            "exhaustive": bool(getattr(mod, "EXHAUSTIVE", {}).get(args.tier, False))
            if isinstance(getattr(mod, "EXHAUSTIVE", None), dict) else False,
        }
        if hasattr(mod, "summarize"):
            try:
                cov.update(jsonable(mod.summarize(extras, counters)))
            except Exception as e:  # never let a summary break the verdict
                cov["summary_error"] = repr(e)
        try:
            cov["anchor_line_coverage"] = anchor_coverage(prop, repo, linecov_all)
        except Exception as e:
            cov["anchor_line_coverage"] = {"error": repr(e)}
        if "asan" in flavours:
            cov["sanitizer"] = {"reports_with_mlinsights_frame": len(san_reports),
                                "foreign_reports": san_foreign,
                                "build": "gcc -O1 -g -fsanitize=address,undefined, LD_PRELOAD libasan+libubsan"}
        ev = {
            "property_id": prop, "tier": args.tier, "seed": args.seed,
            "level": getattr(mod, "LEVEL", "exploration"),
            "coverage": cov,
            "assumptions": list(getattr(mod, "ASSUMPTIONS", [])) + [
                "loader: REPO pinned at sys.path[0], origin of every mlinsights module asserted; "
                "sklearn.utils._joblib shim (joblib.Parallel/delayed); Cython extensions built from REPO sources",
                "verdict is 'held on the executions observed', not a proof",
            ],
            "wall_s": round(wall, 2),
            "violations": len(unknown),
            "verdict": {0: "held-on-observed", 1: "violated", 2: "inconclusive"}[rc],
            "inconclusive_reasons": reasons,
            "repo": repo,
        }
        os.makedirs(os.path.join(VERIF, "evidence"), exist_ok=True)
        with open(os.path.join(VERIF, "evidence", "%s.json" % prop), "w") as f:
            json.dump(ev, f, indent=1, sort_keys=True, default=repr)
            f.write("\n")

    if not args.keep_work:
        shutil.rmtree(workdir, ignore_errors=True)
    else:
        print("   workdir kept:", workdir)
    print("== %s verdict: %s" % (prop, {0: "HELD on what was observed", 1: "VIOLATED", 2: "INCONCLUSIVE"}[rc]))
    return rc


if __name__ == "__main__":
    sys.exit(main())
