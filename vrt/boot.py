"""Trusted loader: makes `import mlinsights` resolve to $VERIF_REPO (default /repo).

 * pins REPO at sys.path[0] (a different mlinsights 0.5.3 lives in site-packages)
 * provides sklearn.utils._joblib (removed from scikit-learn; the repo imports it)
 * serves the six compiled modules from the build cache (built from REPO's .pyx)
 * asserts that every loaded mlinsights.* module comes from REPO or the cache

A check that cannot establish the origin raises OriginError -> inconclusive.
"""
import importlib.abc
import importlib.machinery
import importlib.util
import os
import sys
import types
import warnings

from . import build_ext

REPO = build_ext.repo_root()
FLAVOUR = os.environ.get("VERIF_EXT_FLAVOUR", "plain")
_BUILD_DIR = None
_done = False


class OriginError(RuntimeError):
    pass


class _ExtFinder(importlib.abc.MetaPathFinder):
    def find_spec(self, fullname, path=None, target=None):
        if fullname not in build_ext.EXT_NAMES:
            return None
        global _BUILD_DIR
        if _BUILD_DIR is None:
            _BUILD_DIR = build_ext.build(REPO, FLAVOUR)
        import sysconfig
        parts = fullname.split(".")
        so = os.path.join(_BUILD_DIR, *parts) + sysconfig.get_config_var("EXT_SUFFIX")
        if not os.path.isfile(so):
            return None
        loader = importlib.machinery.ExtensionFileLoader(fullname, so)
        return importlib.util.spec_from_file_location(fullname, so, loader=loader)


def _install_joblib_shim():
    if "sklearn.utils._joblib" in sys.modules:
        return
    try:
        import sklearn.utils._joblib  # noqa: F401
        return
    except ImportError:
        pass
    import joblib
    m = types.ModuleType("sklearn.utils._joblib")
    m.Parallel = joblib.Parallel
    m.delayed = joblib.delayed
    m.__doc__ = "verif shim: what scikit-learn<=1.4 re-exported"
    sys.modules["sklearn.utils._joblib"] = m
    import sklearn.utils
    sklearn.utils._joblib = m


def boot(need_ext=True):
    """Idempotent.  Returns the imported mlinsights package."""
    global _done
    if not _done:
        for k in ("OMP_NUM_THREADS", "OPENBLAS_NUM_THREADS", "MKL_NUM_THREADS"):
            os.environ.setdefault(k, "1")
        while REPO in sys.path:
            sys.path.remove(REPO)
        sys.path.insert(0, REPO)
        for name in list(sys.modules):
            if name == "mlinsights" or name.startswith("mlinsights."):
                raise OriginError("mlinsights imported before boot(): %s" % name)
        warnings.filterwarnings("ignore")
        _install_joblib_shim()
        sys.meta_path.insert(0, _ExtFinder())
        _done = True
    import mlinsights
    check_origin()
    return mlinsights


def check_origin():
    """Every mlinsights.* module must come from REPO or the build cache."""
    n = 0
    for name, mod in list(sys.modules.items()):
        if not (name == "mlinsights" or name.startswith("mlinsights.")):
            continue
        f = getattr(mod, "__file__", None)
        if f is None:
            continue
        f = os.path.realpath(f)
        ok = f.startswith(os.path.realpath(REPO) + os.sep) or \
            f.startswith(os.path.realpath(build_ext.CACHE) + os.sep)
        if not ok:
            raise OriginError("module %s loaded from %s, not from %s" % (name, f, REPO))
        n += 1
    if n == 0:
        raise OriginError("no mlinsights module loaded")
    return n


def ext_build_dir():
    return _BUILD_DIR
