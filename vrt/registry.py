"""Registry of the estimators exported by mlinsights.{mlmodel,sklapi,timeseries}: factories (several
valid configurations each), data makers, fit/query/output adapters and per-class facts used by the
cross-cutting monitors C01-C04.  Everything is created lazily inside the worker (after boot)."""
import numpy


SKIP = object()   # returned by an alternative-value maker: "no valid alternative for this instance"


# ----------------------------------------------------------------------------- data
def reg_data(rng, n=60, d=3):
    X = rng.randn(n, d)
    y = X[:, 0] * 2 - X[:, -1] + numpy.sin(X[:, 0]) + rng.randn(n) * 0.1
    return {"X": X, "y": y}


def clf_data(rng, n=70, d=3, labels=(0, 1)):
    X = rng.randn(n, d)
    s = X[:, 0] + 0.6 * X[:, 1] + rng.randn(n) * 0.3
    k = len(labels)
    yi = numpy.digitize(s, numpy.quantile(s, numpy.linspace(0, 1, k + 1)[1:-1]))
    yi[:k] = numpy.arange(k)
    return {"X": X, "y": numpy.array(labels)[yi]}


def pos_data(rng, n=40, d=4):
    W = numpy.abs(rng.randn(n, 2))
    H = numpy.abs(rng.randn(2, d))
    return {"X": W @ H + 0.01 * numpy.abs(rng.randn(n, d))}


def frame_data(rng, n=20, cats=("a", "bb", "c"), ncat=2, nnum=1):
    import pandas
    data = {}
    for j in range(ncat):
        col = numpy.empty(n, dtype=object)
        for i in range(n):
            col[i] = cats[rng.randint(len(cats))] if rng.rand() > 0.1 else None
        col[:len(cats)] = list(cats)
        data["k%d" % j] = col
    for j in range(nnum):
        data["x%d" % j] = rng.randn(n).round(3)
    df = pandas.DataFrame(data)
    for j in range(ncat):
        df["k%d" % j] = df["k%d" % j].astype(object)
    return {"X": df}


def corpus_data(rng, n=8, words=("aa", "bb", "cc", "the", "cat", "dog")):
    docs = []
    for _ in range(n):
        ln = int(rng.randint(1, 7))
        docs.append(" ".join(words[rng.randint(len(words))] for _ in range(ln)))
    docs[0] = " ".join(words)
    return {"X": docs}


def ts_data(rng, n=30):
    y = numpy.cumsum(rng.randn(n))
    return {"X": rng.randn(n, 2), "y": y}


# ----------------------------------------------------------------------------- spec
class Spec:
    def __init__(self, name, variants, data, data_b=None, methods=(), rowwise=(), alts=None, fit=None,
                 query=None, out=None, abstract=False, slow=False, det_rs=False, seeded=True, fit_in_place=False,
                 kind="xy", invalid=None, no_weights=False, notes=""):
        self.name = name
        self.variants = variants          # list of callables () -> fresh instance
        self.data = data                  # rng -> dict(X, y?, w?)
        self.data_b = data_b or data      # a second, structurally different training set
        self.methods = tuple(methods)     # public output methods taking X
        self.rowwise = tuple(rowwise)     # those with per-row semantics
        self.alts = alts or {}            # param -> list of valid alternative values (callables () -> value)
        self._fit = fit
        self._query = query
        self._out = out
        self.abstract = abstract
        self.slow = slow
        self.det_rs = det_rs              # an integer random_state is documented to make it deterministic
        self.seeded = seeded
        self.kind = kind
        self.invalid = invalid
        self.no_weights = no_weights
        self.notes = notes

    def make(self, i=0):
        return self.variants[i % len(self.variants)]()

    def fit(self, est, D):
        if self._fit:
            return self._fit(est, D)
        if "y" in D:
            if D.get("w") is not None:
                return est.fit(D["X"], D["y"], sample_weight=D["w"])
            return est.fit(D["X"], D["y"])
        if D.get("w") is not None:
            return est.fit(D["X"], sample_weight=D["w"])
        return est.fit(D["X"])

    def query(self, rng, D):
        if self._query:
            return self._query(rng, D)
        X = D["X"]
        idx = rng.randint(len(X), size=min(12, len(X)))
        Q = numpy.vstack([X[idx], X[idx[:4]] + rng.randn(min(4, len(idx)), X.shape[1]) * 0.5,
                          rng.randn(4, X.shape[1]) * 3])
        return Q

    def outputs(self, est, Q, methods=None):
        res = {}
        for m in (methods or self.methods):
            if self._out:
                res[m] = self._out(est, m, Q)
            else:
                if m == "predict_leaves" and not hasattr(est, "leaves_index_"):
                    continue  # PiecewiseTreeRegressor.predict_leaves exists for criterion='mselin' only
                r = getattr(est, m)(Q)
                if hasattr(r, "todense"):
                    r = numpy.asarray(r.todense())
                res[m] = numpy.asarray(r)
        if methods is None:
            res.update(self.getters(est, Q))
        return res

    _NOT_A_GETTER = ("fit", "set_", "get_params", "partial_fit")

    def getters(self, est, Q=None):
        """Every public property and zero-argument method mlinsights defines on the class (get_leaves_index,
        cluster_edges, get_fct_inv, classes_, n_estimators_, ...): lazily cached answers are state too."""
        import inspect
        out = {}
        for name in dir(type(est)):
            if name.startswith("_") or name.startswith(self._NOT_A_GETTER):
                continue
            klass = next((k for k in type(est).__mro__ if name in vars(k)), None)
            if klass is None or not klass.__module__.startswith("mlinsights"):
                continue
            attr = vars(klass)[name]
            try:
                if isinstance(attr, property):
                    val = getattr(est, name)
                elif inspect.isfunction(attr):
                    ps = list(inspect.signature(attr).parameters.values())[1:]
                    if any(p.default is p.empty and p.kind in (p.POSITIONAL_ONLY, p.POSITIONAL_OR_KEYWORD,
                                                                p.KEYWORD_ONLY) for p in ps):
                        continue
                    val = getattr(est, name)()
                else:
                    continue
            except Exception as e:
                val = "raised %s" % type(e).__name__
            if hasattr(val, "get_params"):
                # a reciprocal transformer: described by what it does to this instance's transformed targets
                if self.kind == "xy->xy" and isinstance(Q, tuple):
                    try:
                        val = numpy.asarray(val.transform(Q[0], est.transform(Q[0], Q[1])[1])[1])
                    except Exception as e:
                        val = "raised %s" % type(e).__name__
                else:
                    val = type(val).__name__
            if isinstance(val, (set, frozenset)):
                val = sorted(val)
            try:
                val = numpy.asarray(val)
            except Exception:
                val = numpy.asarray(repr(val))
            if val.dtype == object:
                val = numpy.asarray(repr(val.tolist()))
            out["getter:" + name] = val
        return out

    @staticmethod
    def take(Q, idx):
        import pandas
        if isinstance(Q, pandas.DataFrame):
            return Q.iloc[list(idx)]
        if isinstance(Q, list):
            return [Q[i] for i in idx]
        if isinstance(Q, tuple):
            return tuple(Spec.take(q, idx) for q in Q)
        return Q[list(idx)]

    @staticmethod
    def nrows(Q):
        if isinstance(Q, tuple):
            return Spec.nrows(Q[0])
        return len(Q)


def build():
    from sklearn.linear_model import LinearRegression, LogisticRegression, Ridge
    from sklearn.tree import DecisionTreeRegressor, DecisionTreeClassifier
    from sklearn.cluster import KMeans
    from sklearn.preprocessing import KBinsDiscretizer, StandardScaler, MinMaxScaler
    from sklearn.decomposition import PCA
    from sklearn.manifold import TSNE
    from sklearn.neural_network import MLPRegressor
    from sklearn.naive_bayes import GaussianNB
    import mlinsights.mlmodel as mm
    from mlinsights.mlmodel.sklearn_transform_inv_fct import (FunctionReciprocalTransformer,
                                                              PermutationReciprocalTransformer)
    import mlinsights.sklapi as sk
    from mlinsights.sklapi.sklearn_base_transform import SkBaseTransform
    from mlinsights.sklapi.sklearn_base import SkBase
    from mlinsights.timeseries.base import BaseTimeSeries
    from mlinsights.timeseries.dummies import DummyTimeSeriesRegressor
    from mlinsights.timeseries.ar import ARTimeSeriesRegressor
    from mlinsights.timeseries.preprocessing import TimeSeriesDifference

    S = []
    add = S.append

    def clf3(rng):
        return clf_data(rng, labels=(0, 1, 2))

    def clf_str(rng):
        return clf_data(rng, n=50, d=2, labels=(3, 7))

    add(Spec("QuantileLinearRegression",
             [lambda: mm.QuantileLinearRegression(), lambda: mm.QuantileLinearRegression(quantile=0.8, max_iter=20),
              lambda: mm.QuantileLinearRegression(fit_intercept=False, delta=0.001, positive=True)],
             reg_data, lambda r: reg_data(r, n=35, d=5), methods=["predict"], rowwise=["predict"]))
    add(Spec("QuantileMLPRegressor",
             [lambda: mm.QuantileMLPRegressor(hidden_layer_sizes=(5,), max_iter=60, random_state=0),
              lambda: mm.QuantileMLPRegressor(hidden_layer_sizes=(4, 3), max_iter=40, random_state=1, alpha=0.01)],
             reg_data, lambda r: reg_data(r, n=30, d=2), methods=["predict"], rowwise=["predict"], det_rs=True,
             slow=True, no_weights=True, abstract=True,
             notes="fit unreachable in this environment: scikit-learn 1.9 calls _backprop with sample_weight",
             alts={"activation": [lambda: "tanh", lambda: "relu"], "solver": [lambda: "adam", lambda: "lbfgs"]}))
    def _sgd():
        from sklearn.linear_model import SGDRegressor
        return SGDRegressor(max_iter=20, tol=None, random_state=0, learning_rate="constant", eta0=0.001)

    add(Spec("PiecewiseRegressor",
             [lambda: mm.PiecewiseRegressor(), lambda: mm.PiecewiseRegressor(binner="bins"),
              lambda: mm.PiecewiseRegressor(binner=DecisionTreeRegressor(max_depth=2),
                                            estimator=Ridge(alpha=0.1), n_jobs=2),
              lambda: mm.PiecewiseRegressor(binner=KBinsDiscretizer(n_bins=3), verbose=False),
              # local models whose fit takes (X, y, coef_init, intercept_init, sample_weight)
              lambda: mm.PiecewiseRegressor(binner=DecisionTreeRegressor(max_depth=1, min_samples_leaf=8),
                                            estimator=_sgd())],
             reg_data, lambda r: reg_data(r, n=90, d=2), methods=["predict", "transform_bins"],
             rowwise=["predict", "transform_bins"],
             alts={"binner": [lambda: DecisionTreeRegressor(max_depth=3), lambda: KBinsDiscretizer(n_bins=2)],
                   "estimator": [lambda: Ridge(alpha=2.0), lambda: LinearRegression(fit_intercept=False)],
                   "n_jobs": [lambda: 2, lambda: None]}))
    add(Spec("PiecewiseClassifier",
             [lambda: mm.PiecewiseClassifier(random_state=0),
              lambda: mm.PiecewiseClassifier(binner=DecisionTreeClassifier(max_depth=3, random_state=0), random_state=3,
                                             estimator=LogisticRegression(C=0.5)),
              lambda: mm.PiecewiseClassifier(binner="bins", random_state=1, n_jobs=2)],
             clf3, lambda r: clf_data(r, n=45, d=2, labels=(0, 1)),
             methods=["predict", "predict_proba", "decision_function", "transform_bins"],
             rowwise=["predict", "predict_proba", "decision_function", "transform_bins"], det_rs=True,
             alts={"binner": [lambda: DecisionTreeClassifier(max_depth=2), lambda: KBinsDiscretizer(n_bins=2)],
                   "estimator": [lambda: LogisticRegression(C=3.0)], "n_jobs": [lambda: 2, lambda: None],
                   "random_state": [lambda: 5, lambda: 0]}))
    add(Spec("PiecewiseTreeRegressor",
             [lambda: mm.PiecewiseTreeRegressor(max_depth=3, random_state=0),
              lambda: mm.PiecewiseTreeRegressor(criterion="simple", max_depth=2, min_samples_leaf=3, random_state=0),
              lambda: mm.PiecewiseTreeRegressor(criterion="mselin", min_samples_leaf=8, random_state=2)],
             reg_data, lambda r: reg_data(r, n=120, d=2), methods=["predict", "predict_leaves", "apply"],
             rowwise=["predict", "predict_leaves", "apply"], det_rs=True,
             alts={"criterion": [lambda: "simple", lambda: "mselin"], "splitter": [lambda: "best"],
                   "max_depth": [lambda: 4, lambda: 2], "max_features": [lambda: 2],
                   "max_leaf_nodes": [lambda: 6], "random_state": [lambda: 3, lambda: 0]},
             fit=lambda est, D: est.fit(D["X"], D["y"]) if D.get("w") is None else est.fit(D["X"], D["y"],
                                                                                           sample_weight=D["w"])))
    add(Spec("DecisionTreeLogisticRegression",
             [lambda: mm.DecisionTreeLogisticRegression(),
              lambda: mm.DecisionTreeLogisticRegression(max_depth=3, fit_improve_algo="none", min_samples_leaf=5),
              # thresholds given as floats (the documentation speaks of fractions of the number of samples)
              lambda: mm.DecisionTreeLogisticRegression(max_depth=4, min_samples_leaf=0.1, min_samples_split=0.25,
                                                        fit_improve_algo="none"),
              lambda: mm.DecisionTreeLogisticRegression(estimator=LogisticRegression(C=0.3), gamma=2.0, p1p2=0.2,
                                                        fit_improve_algo="intercept_sort_always")],
             clf_data, clf_str, methods=["predict", "predict_proba", "decision_path"],
             rowwise=["predict", "predict_proba", "decision_path"],
             alts={"fit_improve_algo": [lambda: "none", lambda: "intercept_sort"], "strategy": [lambda: "parallel"],
                   "estimator": [lambda: LogisticRegression(C=2.0)]}))
    add(Spec("KMeansL1L2",
             [lambda: mm.KMeansL1L2(n_clusters=3, n_init=2, random_state=0, norm="L1"),
              lambda: mm.KMeansL1L2(n_clusters=2, n_init=1, random_state=1, norm="L2", init="random"),
              lambda: mm.KMeansL1L2(n_clusters=4, n_init=2, random_state=2, norm="L1", max_iter=20, tol=1e-3),
              lambda: mm.KMeansL1L2(n_clusters=3, n_init=1, random_state=4, norm="L1", init="random", max_iter=2),
              # explicit initial centres with the default n_init (10): the L1 path must not overwrite n_init
              lambda: mm.KMeansL1L2(n_clusters=2, norm="L1", random_state=0,
                                    init=numpy.array([[-1.0, 0.0, 0.5], [1.0, 0.5, -0.5]])),
              lambda: mm.KMeansL1L2(n_clusters=2, norm="L2", random_state=0, n_init=3,
                                    init=numpy.array([[-1.0, 0.0, 0.5], [1.0, 0.5, -0.5]]))],
             lambda r: {"X": reg_data(r)["X"]}, lambda r: {"X": reg_data(r, n=25, d=3)["X"] * 2 + 1},
             methods=["predict", "transform"], rowwise=["predict", "transform"], det_rs=True,
             alts={"norm": [lambda: "L1", lambda: "L2"],
                   "init": [# initial centres as a nested list (a valid array-like), one row per cluster
                            lambda est: ([[(-1.0) ** i * (0.5 + 0.25 * i), 0.1 * i, -0.2 * i] for i in range(est.n_clusters)]
                                         if est is not None and est.norm == "L2" and isinstance(est.init, str) else SKIP),
                            lambda: "random", lambda: "k-means++"],
                   "algorithm": [lambda: "lloyd"], "n_init": [lambda: 1, lambda: 3]}))
    add(Spec("ConstraintKMeans",
             [lambda: mm.ConstraintKMeans(n_clusters=3, n_init=2, random_state=0, strategy="distance", max_iter=6),
              lambda: mm.ConstraintKMeans(n_clusters=2, n_init=1, random_state=1, strategy="gain", kmeans0=False,
                                          max_iter=4),
              lambda: mm.ConstraintKMeans(n_clusters=3, n_init=1, random_state=2, strategy="weights", max_iter=5,
                                          learning_rate=0.5, history=True)],
             lambda r: {"X": reg_data(r, n=31)["X"]}, lambda r: {"X": reg_data(r, n=22, d=2)["X"]},
             methods=["predict", "transform"], rowwise=["predict", "transform"],
             alts={"strategy": [lambda: "distance", lambda: "gain"], "init": [lambda: "random"],
                   "algorithm": [lambda: "lloyd"], "n_init": [lambda: 1, lambda: 3],
                   "kmeans0": [lambda est: not est.kmeans0 if est is not None else False],
                   "history": [lambda: True]}))
    add(Spec("ClassifierAfterKMeans",
             [lambda: mm.ClassifierAfterKMeans(), lambda: mm.ClassifierAfterKMeans(c_n_clusters=3, e_C=0.5),
              lambda: mm.ClassifierAfterKMeans(estimator=LogisticRegression(C=2.0),
                                               clus=KMeans(n_clusters=2, n_init=1, random_state=0)),
              lambda: mm.ClassifierAfterKMeans(estimator=__import__("sklearn.svm", fromlist=["SVC"]).SVC(
                  probability=True, random_state=0), clus=KMeans(n_clusters=3, n_init=1, random_state=1)),
              # a clusterer that draws from the global generator and is sensitive to what it draws
              lambda: mm.ClassifierAfterKMeans(clus=KMeans(n_clusters=3, n_init=1, init="random", max_iter=2))],
             clf_data, clf3, methods=["predict", "predict_proba", "decision_function"],
             rowwise=["predict", "predict_proba", "decision_function"],
             alts={"clus": [lambda: __import__("sklearn.cluster", fromlist=["Birch"]).Birch(n_clusters=2),
                            lambda: KMeans(n_clusters=2, n_init=1, random_state=5)],
                   "c_init": [lambda: "random"], "c_algorithm": [lambda: "lloyd"], "c_random_state": [lambda: 3],
                   "e_solver": [lambda: "lbfgs"], "e_class_weight": [lambda: "balanced"],
                   "e_random_state": [lambda: 2], "c_n_init": [lambda: 2], "e_l1_ratio": [lambda: 0.0]}))
    add(Spec("ExtendedFeatures",
             [lambda: mm.ExtendedFeatures(), lambda: mm.ExtendedFeatures(kind="poly-slow", poly_degree=3),
              lambda: mm.ExtendedFeatures(poly_interaction_only=True, poly_include_bias=False),
              lambda: mm.ExtendedFeatures(poly_degree=3), lambda: mm.ExtendedFeatures(poly_degree=4, poly_interaction_only=True)],
             lambda r: {"X": reg_data(r)["X"]}, lambda r: {"X": reg_data(r, n=20, d=5)["X"]},
             methods=["transform"], rowwise=["transform"], alts={"kind": [lambda: "poly-slow", lambda: "poly"]}))
    add(Spec("IntervalRegressor",
             [lambda: mm.IntervalRegressor(LinearRegression(), n_estimators=4),
              lambda: mm.IntervalRegressor(Ridge(alpha=0.3), n_estimators=3, alpha=0.7, n_jobs=2),
              lambda: mm.IntervalRegressor(Ridge(alpha=0.2), n_estimators=6, alpha=0.8, n_jobs=3, verbose=True),
              lambda: mm.IntervalRegressor(_sgd(), n_estimators=3)],
             reg_data, lambda r: reg_data(r, n=25, d=2), methods=["predict", "predict_all", "predict_sorted"],
             rowwise=["predict", "predict_all", "predict_sorted"],
             alts={"estimator": [lambda: Ridge(alpha=1.5)], "n_jobs": [lambda: 2, lambda: None]}))
    add(Spec("ApproximateNMFPredictor",
             [lambda: mm.ApproximateNMFPredictor(n_components=2, random_state=0, max_iter=300),
              lambda: mm.ApproximateNMFPredictor(n_components=3, force_positive=True, random_state=1, max_iter=200,
                                                 init="random")],
             pos_data, lambda r: pos_data(r, n=25, d=6), methods=["predict"], rowwise=["predict"], det_rs=False,
             alts={"init": [lambda: "random", lambda: "nndsvd"], "solver": [lambda: "cd"],
                   "beta_loss": [lambda: "frobenius"], "n_components": [lambda: None, lambda: 4],
                   "random_state": [lambda: None, lambda: 0]}))
    add(Spec("PredictableTSNE",
             [lambda: mm.PredictableTSNE(transformer=TSNE(n_components=2, perplexity=5, max_iter=250, random_state=0),
                                         estimator=MLPRegressor(hidden_layer_sizes=(5,), max_iter=40,
                                                                random_state=0)),
              lambda: mm.PredictableTSNE(normalizer=StandardScaler(), normalize=False, keep_tsne_outputs=True,
                                         transformer=TSNE(n_components=2, perplexity=4, max_iter=250, random_state=1),
                                         estimator=Ridge())],
             lambda r: reg_data(r, n=28), lambda r: reg_data(r, n=18, d=2), methods=["transform"],
             rowwise=["transform"], slow=True,
             alts={"normalizer": [lambda: MinMaxScaler()], "estimator": [lambda: Ridge(alpha=3.0)],
                   "transformer": [lambda: TSNE(perplexity=3, max_iter=250, random_state=2)]}))
    add(Spec("TransformedTargetRegressor2",
             [lambda: mm.TransformedTargetRegressor2(LinearRegression(), "log"),
              lambda: mm.TransformedTargetRegressor2(Ridge(alpha=0.2), FunctionReciprocalTransformer("log1p")),
              lambda: mm.TransformedTargetRegressor2(transformer="exp"),
              # an inner regressor whose fit takes (X, y, coef_init, intercept_init, sample_weight)
              lambda: mm.TransformedTargetRegressor2(__import__("sklearn.linear_model", fromlist=["x"]).SGDRegressor(
                  max_iter=20, tol=None, random_state=0, learning_rate="constant", eta0=0.001), "log1p")],
             lambda r: (lambda D: {"X": D["X"], "y": numpy.abs(D["y"]) * 0.2 + 0.1})(reg_data(r)),
             lambda r: (lambda D: {"X": D["X"], "y": numpy.abs(D["y"]) * 0.2 + 0.1})(reg_data(r, n=30, d=2)),
             methods=["predict"], rowwise=["predict"],
             alts={"regressor": [lambda: Ridge(alpha=0.9)], "transformer": [lambda: "log1p", lambda: "exp"]}))
    add(Spec("TransformedTargetClassifier2",
             [lambda: mm.TransformedTargetClassifier2(LogisticRegression(), PermutationReciprocalTransformer(0)),
              lambda: mm.TransformedTargetClassifier2(GaussianNB(), PermutationReciprocalTransformer(5))],
             clf3, clf_str, methods=["predict", "predict_proba"], rowwise=["predict", "predict_proba"],
             alts={"classifier": [lambda: LogisticRegression(C=0.2)],
                   "transformer": [lambda: PermutationReciprocalTransformer(9)]}))
    add(Spec("TransferTransformer",
             [lambda: mm.TransferTransformer(LinearRegression().fit(numpy.eye(3), [1.0, 2.0, 3.0])),
              lambda: mm.TransferTransformer(StandardScaler().fit(numpy.arange(12.0).reshape(4, 3)),
                                             copy_estimator=False),
              lambda: mm.TransferTransformer(LogisticRegression().fit(numpy.eye(3), [0, 1, 0]), method="predict_proba",
                                             trainable=True),
              lambda: mm.TransferTransformer(__import__("sklearn.decomposition", fromlist=["PCA"]).PCA(
                  n_components=2).fit(numpy.arange(12.0).reshape(4, 3) ** 2), trainable=True),
              # a learner that goes on from its coefficients and updates them in place
              lambda: mm.TransferTransformer(__import__("sklearn.linear_model", fromlist=["x"]).SGDRegressor(
                  warm_start=True, random_state=0, max_iter=5, tol=None, learning_rate="constant", eta0=0.01).fit(
                      numpy.eye(3), [1.0, 2.0, 3.0]), trainable=True),
              lambda: mm.TransferTransformer(__import__("sklearn.neighbors", fromlist=["x"]).KNeighborsRegressor(
                  n_neighbors=2, algorithm="brute").fit(numpy.eye(3), [1.0, 2.0, 3.0]), trainable=True,
                  copy_estimator=False)],
             reg_data, lambda r: reg_data(r, n=22), methods=["transform"], rowwise=["transform"],
             fit=lambda est, D: est.fit(D["X"], (D["y"] > numpy.median(D["y"])).astype(int)
                                        if type(est.estimator).__name__ == "LogisticRegression" else D["y"]),
             alts={"estimator": [lambda est: (LogisticRegression(C=2.0).fit(numpy.eye(3), [1, 0, 1])
                                              if est is not None and est.method == "predict_proba"
                                              else (StandardScaler().fit(numpy.eye(3)) if est is not None
                                                    and est.method == "transform"
                                                    else Ridge().fit(numpy.eye(3), [1.0, 0.0, 2.0])))],
                   "method": [lambda est: "predict" if hasattr(est.estimator, "predict") else "transform"]}))
    add(Spec("FunctionReciprocalTransformer",
             [lambda: FunctionReciprocalTransformer("log"), lambda: FunctionReciprocalTransformer("expm1"),
              lambda: FunctionReciprocalTransformer(numpy.sqrt, numpy.square)],
             lambda r: (lambda D: {"X": D["X"], "y": numpy.abs(D["y"]) + 0.1})(reg_data(r)), kind="xy->xy",
             methods=["transform"], rowwise=["transform"],
             query=lambda rng, D: (D["X"][:9], D["y"][:9]),
             out=lambda est, m, Q: numpy.asarray(est.transform(Q[0], Q[1])[1]),
             alts={"fct": [lambda est: (numpy.cbrt if est is not None and est.fct_inv is not None else "exp"),
                           lambda est: (numpy.abs if est is not None and est.fct_inv is not None else "log1p")],
                   "fct_inv": [lambda est: (numpy.exp if est is not None and callable(est.fct) else SKIP)]}))
    add(Spec("PermutationReciprocalTransformer",
             [lambda: PermutationReciprocalTransformer(0), lambda: PermutationReciprocalTransformer(3, closest=False)],
             clf3, clf_str, kind="xy->xy", methods=["transform"], rowwise=["transform"], det_rs=True,
             query=lambda rng, D: (D["X"][:9], D["y"][:9]),
             out=lambda est, m, Q: numpy.asarray(est.transform(Q[0], Q[1])[1]),
             alts={"random_state": [lambda: 4, lambda: 0]}))
    add(Spec("CategoriesToIntegers",
             [lambda: mm.CategoriesToIntegers(), lambda: mm.CategoriesToIntegers(columns=["k0"], single=True),
              lambda: mm.CategoriesToIntegers(skip_errors=True, remove=["k0=a"]),
              lambda: mm.CategoriesToIntegers(columns="k1"),
              lambda: mm.CategoriesToIntegers(columns=["k0", "k1"], skip_errors=True)],
             frame_data, lambda r: (lambda D: {"X": D["X"].rename(columns={"x1": "k1"})[["k0", "k1", "x0"]]})(
                 frame_data(r, n=12, cats=("u", "v", "w", "zz"), ncat=1, nnum=2)), kind="frame",
             methods=["transform"], rowwise=["transform"],
             query=lambda rng, D: D["X"].iloc[:10],
             out=lambda est, m, Q: est.transform(Q).astype(object).to_numpy(),
             alts={"columns": [lambda: ["k1"], lambda: None], "remove": [lambda: ["k1=c"], lambda: None]}))
    for nm, cls in (("TraceableCountVectorizer", mm.TraceableCountVectorizer),
                    ("TraceableTfidfVectorizer", mm.TraceableTfidfVectorizer)):
        add(Spec(nm, [lambda cls=cls: cls(), lambda cls=cls: cls(ngram_range=(1, 2), min_df=1, lowercase=False),
                      lambda cls=cls: cls(stop_words=["the"], binary=True)],
                 corpus_data, lambda r: corpus_data(r, n=5, words=("xx", "yy", "zz")), kind="corpus",
                 methods=["transform"], rowwise=["transform"],
                 query=lambda rng, D: list(D["X"][:6]) + ["aa the zz", ""],
                 out=lambda est, m, Q: numpy.asarray(est.transform(Q).todense()),
                 alts={"ngram_range": [lambda: (1, 3), lambda: (2, 2)], "stop_words": [lambda: ["aa"], lambda: None],
                       "analyzer": [lambda: "word"], "strip_accents": [lambda: "ascii"],
                       "max_features": [lambda: 4], "vocabulary": [lambda: None], "norm": [lambda: "l1"],
                       "token_pattern": [lambda: r"(?u)\\b\\w+\\b"], "decode_error": [lambda: "ignore"],
                       "input": [lambda: "content"], "encoding": [lambda: "latin-1"],
                       "dtype": [lambda: numpy.float64]}))
    def _ensemble(name, **kw):
        import sklearn.ensemble
        return getattr(sklearn.ensemble, name)(**kw)

    add(Spec("SkBaseTransformLearner",
             [lambda: sk.SkBaseTransformLearner(LinearRegression()),
              lambda: sk.SkBaseTransformLearner(LogisticRegression(C=0.7), "predict_proba"),
              lambda: sk.SkBaseTransformLearner(DecisionTreeClassifier(max_depth=2), "predict", extra=3),
              lambda: sk.SkBaseTransformLearner(LogisticRegression(), "predict", copy=False, update=2),
              # an ensemble: while it is not fitted, len() / bool() of it raise (its __len__ reads estimators_)
              lambda: sk.SkBaseTransformLearner(_ensemble("RandomForestRegressor", n_estimators=3, random_state=0),
                                                "predict")],
             clf_data, clf3, methods=["transform"], rowwise=["transform"], fit_in_place=True,
             alts={"model": [lambda est: (LogisticRegression(C=5.0) if est is None or est.method != "predict"
                                          or hasattr(est.model, "predict_proba") else Ridge(alpha=3.0))],
                   "method": [lambda: "predict",
                              lambda est: "predict_proba" if hasattr(est.model, "predict_proba") else "predict"]}))
    add(Spec("SkBaseTransformStacking",
             [lambda: sk.SkBaseTransformStacking([LinearRegression(), DecisionTreeRegressor(max_depth=2)]),
              lambda: sk.SkBaseTransformStacking([LogisticRegression(), DecisionTreeClassifier(max_depth=2)],
                                                 "predict_proba"),
              lambda: sk.SkBaseTransformStacking([Ridge(alpha=float(i + 1)) for i in range(12)], "predict"),
              lambda: sk.SkBaseTransformStacking([LinearRegression()], extra="a"),
              lambda: sk.SkBaseTransformStacking([_ensemble("ExtraTreesRegressor", n_estimators=2, random_state=0),
                                                  LinearRegression()], "predict"),
              # a free-form keyword whose name begins like the indexed keys of the members
              lambda: sk.SkBaseTransformStacking([LinearRegression(), Ridge(alpha=2.0)], "predict", models_tag=3)],
             clf_data, clf3, methods=["transform"], rowwise=["transform"], fit_in_place=True,
             alts={"method": [lambda: "predict"],
                   "models": [lambda: [sk.SkBaseTransformLearner(Ridge(alpha=0.5), "predict"),
                                       sk.SkBaseTransformLearner(LinearRegression(), "predict")],
                              # other learner objects with the same hyper-parameters as the current ones
                              lambda est: ([__import__("sklearn.base", fromlist=["clone"]).clone(m)
                                            for m in est.models] if est is not None else SKIP)]}))
    for nm, cls in (("SkBase", SkBase), ("SkBaseLearner", sk.SkBaseLearner), ("SkBaseClassifier", sk.SkBaseClassifier),
                    ("SkBaseRegressor", sk.SkBaseRegressor), ("SkBaseTransform", SkBaseTransform)):
        add(Spec(nm, [lambda cls=cls: cls(alpha=1, name="n"), lambda cls=cls: cls(alpha=2.5, flag=True, name="m"),
                      lambda cls=cls: cls(),
                      # free-form keyword names that are also method names of containers (copy, items, get, update)
                      lambda cls=cls: cls(copy=True, items=3, get="g", update=0.5),
                      # keyword values that are objects the caller keeps a reference to
                      lambda cls=cls: cls(alpha=1, cols=["a", "b"], inner=Ridge(alpha=2.0), grid={"k": [1, 2]},
                                          center=numpy.arange(3.0))], reg_data, abstract=True,
                 alts={"name": [lambda: "zz"]}))
    add(Spec("BaseTimeSeries", [lambda: BaseTimeSeries(), lambda: BaseTimeSeries(past=3, delay2=4),
                                lambda: BaseTimeSeries(preprocessing=TimeSeriesDifference(1))], ts_data, abstract=True,
             alts={"delay1": [lambda: 1], "delay2": [lambda: 6, lambda: 5], "past": [lambda: 3, lambda: 2], "preprocessing": [lambda: TimeSeriesDifference(2), lambda: None]}))
    add(Spec("DummyTimeSeriesRegressor",
             [lambda: DummyTimeSeriesRegressor(), lambda: DummyTimeSeriesRegressor(past=2),
              lambda: DummyTimeSeriesRegressor(past=2, preprocessing=TimeSeriesDifference(1)),
              lambda: DummyTimeSeriesRegressor(past=1, preprocessing=TimeSeriesDifference(3))],
             ts_data, lambda r: ts_data(r, n=17), kind="ts", methods=["predict"],
             query=lambda rng, D: (D["X"], D["y"]), out=lambda est, m, Q: numpy.asarray(est.predict(Q[0], Q[1])),
             alts={"delay1": [lambda: 1], "delay2": [lambda: 6, lambda: 5], "past": [lambda: 3, lambda: 2], "estimator": [lambda: "dummy"],
                   "preprocessing": [lambda: TimeSeriesDifference(1), lambda: None]}))
    add(Spec("ARTimeSeriesRegressor",
             [lambda: ARTimeSeriesRegressor(), lambda: ARTimeSeriesRegressor(past=1, delay2=2),
              lambda: ARTimeSeriesRegressor(past=1, preprocessing=TimeSeriesDifference(3))],
             ts_data, lambda r: ts_data(r, n=17), kind="ts", methods=["predict"],
             query=lambda rng, D: (D["X"], D["y"]), out=lambda est, m, Q: numpy.asarray(est.predict(Q[0], Q[1])),
             alts={"delay1": [lambda: 1], "delay2": [lambda: 6, lambda: 5], "past": [lambda: 3, lambda: 2], "preprocessing": [lambda: None]}))
    add(Spec("TimeSeriesDifference", [lambda: TimeSeriesDifference(1), lambda: TimeSeriesDifference(2)],
             ts_data, abstract=True))
    return S


_CACHE = None


def specs():
    global _CACHE
    if _CACHE is None:
        _CACHE = build()
    return _CACHE


def names():
    """Static list (usable without booting mlinsights)."""
    return ["QuantileLinearRegression", "QuantileMLPRegressor", "PiecewiseRegressor", "PiecewiseClassifier",
            "PiecewiseTreeRegressor", "DecisionTreeLogisticRegression", "KMeansL1L2", "ConstraintKMeans",
            "ClassifierAfterKMeans", "ExtendedFeatures", "IntervalRegressor", "ApproximateNMFPredictor",
            "PredictableTSNE", "TransformedTargetRegressor2", "TransformedTargetClassifier2", "TransferTransformer",
            "FunctionReciprocalTransformer", "PermutationReciprocalTransformer", "CategoriesToIntegers",
            "TraceableCountVectorizer", "TraceableTfidfVectorizer", "SkBaseTransformLearner",
            "SkBaseTransformStacking", "SkBase", "SkBaseLearner", "SkBaseClassifier", "SkBaseRegressor",
            "SkBaseTransform", "BaseTimeSeries", "DummyTimeSeriesRegressor", "ARTimeSeriesRegressor",
            "TimeSeriesDifference"]


def get(name):
    for s in specs():
        if s.name == name:
            return s
    raise KeyError(name)
