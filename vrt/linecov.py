"""Which statements of the anchored source files did the workload execute?

sys.monitoring LINE events with DISABLE after the first hit of each location: one callback per executed
line and process, so the cost is negligible.  The orchestrator unions the shards' line sets and reports,
per anchored file of the property, executed / executable statements and the missed line ranges - so that a
reader sees what the monitors could not have observed.
"""
import os
import sys

TOOL = 5
_lines = {}
_root = None


def start(repo):
    global _root
    _root = os.path.join(os.path.realpath(repo), "mlinsights") + os.sep
    mon = sys.monitoring
    try:
        mon.use_tool_id(TOOL, "vrt-linecov")
    except ValueError:
        return False

    def on_line(code, lineno):
        f = code.co_filename
        if f.startswith(_root):
            _lines.setdefault(f[len(_root):], set()).add(lineno)
        return mon.DISABLE

    mon.register_callback(TOOL, mon.events.LINE, on_line)
    mon.set_events(TOOL, mon.events.LINE)
    return True


def snapshot():
    return {k: sorted(v) for k, v in _lines.items()}


def executable_lines(path):
    """Line numbers that carry code, from the compiled code objects (docstrings and defs excluded)."""
    try:
        with open(path, "rb") as f:
            src = f.read()
        top = compile(src, path, "exec")
    except (OSError, SyntaxError):
        return set()
    out = set()
    todo = [top]
    while todo:
        c = todo.pop()
        body = set()
        for _, _, ln in c.co_lines():
            if ln is not None:
                body.add(ln)
        if c is not top:
            body.discard(c.co_firstlineno)
        out |= body
        for k in c.co_consts:
            if hasattr(k, "co_lines"):
                todo.append(k)
    # module-level statements (imports, defs) run at import time, before monitoring starts: not counted
    mod = {ln for _, _, ln in top.co_lines() if ln is not None}
    return out - mod


def ranges(nums):
    nums = sorted(nums)
    out = []
    for n in nums:
        if out and n == out[-1][1] + 1:
            out[-1][1] = n
        else:
            out.append([n, n])
    return ["%d" % a if a == b else "%d-%d" % (a, b) for a, b in out]
