"""Poisoned allocator: makes reads of never-written memory visible.

`numpy.empty` returns whatever the allocator hands over - very often zeros, sometimes the content of an array
freed a moment ago - so code that forgets to fill part of a buffer usually *looks* right.  Inside `Poison` the
listed mlinsights modules see a proxy of the numpy module whose `empty` / `empty_like` return arrays filled with
a sentinel (a huge finite float, a magic integer).  A sentinel in an output is a read of uninitialised memory -
the Python-level analogue of MemorySanitizer, for the buffers mlinsights allocates itself.  Everything else is
delegated to the real numpy, so the code under test runs unchanged.
"""
import sys
import types

import numpy

FLOAT_SENTINEL = 7.0e77        # finite in float64, inf in float32 / float16: both recognisable
INT_SENTINEL = 1234567891


class _NumpyProxy(types.ModuleType):
    def __init__(self, counter):
        super().__init__("numpy")
        self.__dict__["_counter"] = counter

    def __getattr__(self, name):
        return getattr(numpy, name)

    def _fill(self, a):
        self._counter["allocations"] += 1
        if a.dtype.kind == "f":
            with numpy.errstate(over="ignore"):
                a.fill(FLOAT_SENTINEL)
        elif a.dtype.kind in "iu":
            a.fill(INT_SENTINEL if a.dtype.itemsize >= 4 else 77)
        elif a.dtype.kind == "b":
            a.fill(True)
        elif a.dtype.kind == "O":
            a.fill("<uninitialised>")
        return a

    def empty(self, *args, **kwargs):
        return self._fill(numpy.empty(*args, **kwargs))

    def empty_like(self, *args, **kwargs):
        return self._fill(numpy.empty_like(*args, **kwargs))


class Poison:
    """with Poison(["mlinsights.timeseries.utils", ...]) as p: ...; p.allocations = poisoned buffers handed out."""

    def __init__(self, module_names):
        self.module_names = list(module_names)
        self.counter = {"allocations": 0}
        self._saved = []

    def __enter__(self):
        proxy = _NumpyProxy(self.counter)
        for name in self.module_names:
            mod = sys.modules.get(name)
            if mod is None:
                __import__(name)
                mod = sys.modules[name]
            for attr in ("numpy", "np"):
                if getattr(mod, attr, None) is numpy:
                    self._saved.append((mod, attr))
                    setattr(mod, attr, proxy)
        return self

    def __exit__(self, *exc):
        for mod, attr in self._saved:
            setattr(mod, attr, numpy)
        self._saved = []
        return False

    @property
    def allocations(self):
        return self.counter["allocations"]


def tainted(a):
    """True when an output contains the sentinel (or what a narrower dtype turns it into)."""
    a = numpy.asarray(a)
    if a.size == 0:
        return False
    if a.dtype.kind == "f":
        with numpy.errstate(invalid="ignore"):
            return bool((numpy.abs(a) >= 1e70).any())
    if a.dtype.kind in "iu":
        return bool((a == INT_SENTINEL).any())
    if a.dtype.kind == "O":
        return any(isinstance(v, str) and v == "<uninitialised>" for v in a.ravel().tolist())
    return False
