"""Shard worker: python -m vrt.worker <PROP> <shard.json> <out.jsonl>

Runs every case of the shard under a generous wall-clock watchdog (a timeout is
*inconclusive*, never a violation) and appends one JSON line per case, flushed,
so that the parent knows which case was running if the process dies.
"""
import importlib
import json
import os
import signal
import sys
import time
import traceback


class CaseTimeout(Exception):
    pass


def _alarm(signum, frame):
    raise CaseTimeout()


def main(argv):
    prop, shard_path, out_path = argv[:3]
    from . import boot
    from .ctx import Ctx, short_tb
    with open(shard_path) as f:
        shard = json.load(f)
    out = open(out_path, "a")

    def emit(rec):
        out.write(json.dumps(rec, default=repr) + "\n")
        out.flush()

    try:
        boot.boot()
        from . import linecov
        cov_on = linecov.start(boot.REPO)
        mod = importlib.import_module("vrt.props.%s" % prop.lower())
        if hasattr(mod, "setup_worker"):
            mod.setup_worker(shard.get("tier", "quick"))
    except boot.OriginError as e:
        emit({"fatal": "origin", "msg": str(e)})
        return 3
    except Exception as e:  # the library no longer imports: that is a finding the parent reports
        emit({"fatal": "import", "msg": "%s: %s" % (type(e).__name__, e),
              "tb": traceback.format_exc()[-3000:]})
        return 4
    signal.signal(signal.SIGALRM, _alarm)
    case_timeout = int(shard.get("case_timeout", 120))
    for i, case in enumerate(shard["cases"]):
        emit({"start": case.get("id", i)})
        ctx = Ctx(prop, case)
        t0 = time.time()
        status = "ok"
        err = None
        signal.alarm(case_timeout)
        try:
            mod.run_case(case, ctx)
        except CaseTimeout:
            status = "timeout"
        except MemoryError:
            status = "memory"
        except Exception as e:
            status = "harness_error"
            err = {"type": type(e).__name__, "msg": str(e)[:500], "tb": short_tb(e),
                   "full": traceback.format_exc()[-3000:]}
        finally:
            signal.alarm(0)
        rec = ctx.dump()
        rec["status"] = status
        rec["wall"] = round(time.time() - t0, 3)
        if err:
            rec["error"] = err
        emit(rec)
    try:
        if cov_on:
            emit({"linecov": linecov.snapshot()})
        n = boot.check_origin()
        emit({"origin_ok": n, "repo": boot.REPO, "ext": boot.ext_build_dir()})
    except boot.OriginError as e:
        emit({"fatal": "origin", "msg": str(e)})
        return 3
    return 0


if __name__ == "__main__":
    sys.exit(main(sys.argv[1:]))
