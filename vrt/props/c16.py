"""C16 - pipeline introspection and drawing describe the pipeline they are given.

Workload: a grammar of pipelines (Pipeline | FeatureUnion | ColumnTransformer | leaf transformers |
'passthrough', optional final predictor), filtered by "scikit-learn itself fits it".
Monitors:
  enumerate   enumerate_pipeline_models vs an independent recursive walk (identity, order, coordinates)
  str         pipeline2str: one line per yielded model, indentation = indent * depth, class name present
  debug       alter_pipeline_for_debugging: outputs unchanged; records are the actual last input/output of
              each method (multi-call histories); consecutive steps chain (outputs(i) is inputs(i+1))
  dot         pipeline2dot parsed by a small DOT reader: balanced, endpoints and ports declared, acyclic,
              every leaf model and input column present, final outputs reachable from the inputs;
              /usr/bin/dot is asked for a second opinion on well-formedness
"""
import re
import subprocess

import numpy

PROPERTY = "C16"
LEVEL = "exploration"
NEED_EXT = False
REQUIRED = ["enumerate", "str", "debug.outputs_unchanged", "debug.records", "debug.chain", "debug.copy_history", "debug.after_refused_predict",
            "debug.refused_alter.refused", "debug.text_pipeline", "dot.parsed",
            "dot.reachability"]
RULE = ("pipelines drawn from the grammar with depth <= 3 (thorough 4), width <= 3, over DataFrame / ndarray / "
        "list-of-names schemas; only programs scikit-learn itself fits are in the domain; non-trivial = >= 3 estimators with a "
        "FeatureUnion or ColumnTransformer; distinct = distinct structure string")
ASSUMPTIONS = ["the DOT reader covers the subset pipeline2dot emits (node statements with quoted labels, record "
               "ports, edges a[:port] -> b[:port])",
               "ColumnTransformer children are enumerated from `transformers` (the unfitted specification), as the "
               "library does; their debug records are a known finding, not judged per child",
               "'drop' transformers and TransformedTargetRegressor are outside the supported grammar (the property lists "
               "passthrough only); they appear only in the refused-alteration cases, where the one thing judged is that a "
               "pipeline whose alteration was refused keeps answering as before"]
CASE_TIMEOUT = 300


def cases(tier, seed):
    n = 240 if tier == "quick" else 3000
    out = [{"gen": "pipe", "id": "pipe-%d" % i, "sub": seed * 1000003 + i, "tier": tier} for i in range(n)]
    out += [{"gen": "refused-alter", "id": "refused-alter-%d" % i, "sub": seed * 1000003 + 700000 + i, "tier": tier}
            for i in range(24 if tier == "quick" else 200)]
    out += [{"gen": "text", "id": "text-%d" % i, "sub": seed * 1000003 + 800000 + i, "tier": tier}
            for i in range(12 if tier == "quick" else 100)]
    return out


def run_text(case, ctx):
    """Pipelines whose first step reads documents (its data parameter is called raw_documents, not X) and whose input
    may be a one-shot iterator: altering them for debugging leaves every output unchanged, records chain."""
    from sklearn.feature_extraction.text import CountVectorizer, TfidfTransformer, TfidfVectorizer
    from sklearn.linear_model import LogisticRegression
    from sklearn.naive_bayes import MultinomialNB
    from sklearn.pipeline import Pipeline
    from sklearn.decomposition import TruncatedSVD
    from mlinsights.helpers.pipeline import alter_pipeline_for_debugging
    rng = numpy.random.RandomState(case["sub"] % (2 ** 31))
    words = ["aa", "bb", "cc", "dd", "the", "cat", "dog", "zz"]
    docs = [" ".join(words[rng.randint(len(words))] for _ in range(int(rng.randint(2, 7)))) for _ in range(int(rng.randint(8, 16)))]
    y = numpy.array([i % 2 for i in range(len(docs))])
    shape = ["count-tfidf-logreg", "tfidf-nb", "count-svd", "tfidf-svd-logreg"][case["sub"] % 4]
    if shape == "count-tfidf-logreg":
        pipe = Pipeline([("cv", CountVectorizer()), ("tf", TfidfTransformer()), ("lr", LogisticRegression())])
    elif shape == "tfidf-nb":
        pipe = Pipeline([("tv", TfidfVectorizer(ngram_range=(1, 2))), ("nb", MultinomialNB())])
    elif shape == "count-svd":
        pipe = Pipeline([("cv", CountVectorizer()), ("svd", TruncatedSVD(n_components=2, random_state=0))])
    else:
        pipe = Pipeline([("tv", TfidfVectorizer()), ("svd", TruncatedSVD(n_components=2, random_state=0)),
                         ("lr", LogisticRegression())])
    cfg = {"shape": shape, "n_docs": len(docs)}
    pipe.fit(docs, y)
    methods = [m for m in ("predict", "predict_proba", "decision_function", "transform") if hasattr(pipe, m)]
    batch = docs[:6] + ["aa zz zz", "never seen words"]
    before = {m: numpy.asarray(getattr(pipe, m)(list(batch))) for m in methods}
    try:
        alter_pipeline_for_debugging(pipe)
    except Exception as e:
        ctx.violation("C16/debug/alter-raised/%s/text-pipeline" % type(e).__name__, str(e)[:150], cfg=cfg)
        return
    for m in methods:
        for cname, mk in (("list", lambda: list(batch)), ("tuple", lambda: tuple(batch)),
                          ("generator", lambda: (d_ for d_ in batch)), ("iterator", lambda: iter(batch))):
            try:
                got = numpy.asarray(getattr(pipe, m)(mk()))
            except Exception as e:
                ctx.violation("C16/debug/raised-after-alter/%s/text-pipeline/%s" % (type(e).__name__, cname),
                              "%s on documents given as a %s raises after the alteration: %s" % (m, cname, str(e)[:120]),
                              cfg=cfg)
                continue
            ctx.hit("debug.text_pipeline")
            if got.shape != before[m].shape or not numpy.allclose(got, before[m], rtol=0, atol=0):
                ctx.violation("C16/debug/output-changed/text-pipeline/%s" % cname, "%s on documents given as a %s differs "
                              "after alter_pipeline_for_debugging (shape %r, before %r)" % (m, cname, got.shape,
                                                                                         before[m].shape), cfg=cfg)
        # the steps chain on the last call: output recorded for step i is the input recorded for step i + 1
        steps = [s_ for _, s_ in pipe.steps]
        for a_, b_ in zip(steps[:-1], steps[1:]):
            da, db = getattr(a_, "_debug", None), getattr(b_, "_debug", None)
            if da is None or db is None or "transform" not in da.outputs:
                ctx.violation("C16/debug/step-without-record/text-pipeline", "a step of the text pipeline has no record after "
                              "%s" % m, cfg=cfg)
                break
            mb = m if b_ is steps[-1] and m in db.inputs else "transform"
            oa, ib = da.outputs["transform"], db.inputs.get(mb)
            same = ib is oa or (hasattr(oa, "toarray") and hasattr(ib, "toarray") and (oa != ib).nnz == 0) or (
                not hasattr(oa, "toarray") and ib is not None and numpy.array_equal(numpy.asarray(oa), numpy.asarray(ib)))
            if not same:
                ctx.violation("C16/debug/steps-do-not-chain/text-pipeline", "after %s the input recorded for %s is not the "
                              "output recorded for %s" % (m, type(b_).__name__, type(a_).__name__), cfg=cfg)
                break
    ctx.cls("text-pipeline=" + shape)


def run_refused_alter(case, ctx):
    """A fitted pipeline holding, after supported models, an object the enumeration refuses (a 'drop' entry, a
    TransformedTargetRegressor, a FunctionTransformer is fine): alter_pipeline_for_debugging raises or not - either way the
    pipeline keeps answering exactly as before."""
    import pandas
    from sklearn.compose import ColumnTransformer, TransformedTargetRegressor
    from sklearn.linear_model import LinearRegression, LogisticRegression
    from sklearn.pipeline import Pipeline, FeatureUnion
    from sklearn.preprocessing import StandardScaler, MinMaxScaler
    from sklearn.decomposition import PCA
    from mlinsights.helpers.pipeline import alter_pipeline_for_debugging
    rng = numpy.random.RandomState(case["sub"] % (2 ** 31))
    n, d = int(rng.randint(20, 60)), int(rng.randint(3, 6))
    X = rng.randn(n, d)
    frame = rng.rand() < 0.5
    data = pandas.DataFrame(X, columns=["c%d" % i for i in range(d)]) if frame else X
    cols = (lambda idx: ["c%d" % i for i in idx]) if frame else (lambda idx: list(idx))
    shape = ["ttr-final", "drop-in-ct", "drop-in-nested-ct", "ttr-after-union"][case["sub"] % 4]
    clf = shape.startswith("drop") and rng.rand() < 0.5
    y = (X[:, 0] + rng.randn(n) * 0.1 > 0).astype(int) if clf else X[:, 0] * 2 + rng.randn(n) * 0.1
    fin = LogisticRegression() if clf else LinearRegression()
    if shape == "ttr-final":
        pipe = Pipeline([("s", StandardScaler()), ("m", MinMaxScaler()),
                         ("t", TransformedTargetRegressor(regressor=LinearRegression(), transformer=StandardScaler()))])
    elif shape == "ttr-after-union":
        pipe = Pipeline([("u", FeatureUnion([("p", PCA(n_components=2)), ("s", StandardScaler())])),
                         ("t", TransformedTargetRegressor(regressor=LinearRegression(), func=numpy.arcsinh,
                                                          inverse_func=numpy.sinh))])
    elif shape == "drop-in-ct":
        pipe = Pipeline([("s", StandardScaler().set_output(transform="pandas") if frame else StandardScaler()),
                         ("ct", ColumnTransformer([("a", MinMaxScaler(), cols(range(d - 1))),
                                                   ("d", "drop", cols([d - 1]))])), ("f", fin)])
    else:
        pipe = Pipeline([("s", StandardScaler().set_output(transform="pandas") if frame else StandardScaler()),
                         ("p", Pipeline([("ct", ColumnTransformer([("a", MinMaxScaler(), cols(range(1, d))),
                                                                   ("d", "drop", cols([0]))])),
                                         ("m", StandardScaler())])), ("f", fin)])
    cfg = {"shape": shape, "frame": bool(frame), "classifier": bool(clf), "n": n, "d": d}
    try:
        pipe.fit(data, y)
    except Exception:
        ctx.excluded("refused-alter: scikit-learn refuses the program")
        return
    Q = data.iloc[3:15] if frame else data[3:15]
    methods = [m for m in ("predict", "predict_proba", "decision_function") if hasattr(pipe, m)]
    before = {m: numpy.asarray(getattr(pipe, m)(Q)) for m in methods}
    tr_before = numpy.asarray(pipe[:-1].transform(Q))
    try:
        alter_pipeline_for_debugging(pipe)
        outcome = "accepted"
    except Exception as e:
        outcome = type(e).__name__
    ctx.hit("debug.refused_alter." + ("accepted" if outcome == "accepted" else "refused"))
    cfg["alter"] = outcome
    for m in methods:
        try:
            got = numpy.asarray(getattr(pipe, m)(Q))
        except Exception as e:
            ctx.violation("C16/debug/refused-alter/pipeline-broken/%s" % type(e).__name__, "alter_pipeline_for_debugging "
                          "ended with %s on a %s pipeline; afterwards %s raises %s: %s" % (
                              outcome, shape, m, type(e).__name__, str(e)[:100]), cfg=cfg)
            return
        if not numpy.array_equal(got, before[m]):
            ctx.violation("C16/debug/refused-alter/output-changed", "after alter_pipeline_for_debugging (%s) %s "
                          "differs" % (outcome, m), cfg=cfg)
            return
    try:
        tr = numpy.asarray(pipe[:-1].transform(Q))
        if not numpy.array_equal(tr, tr_before):
            ctx.violation("C16/debug/refused-alter/output-changed", "after alter_pipeline_for_debugging (%s) the "
                          "transformers' output differs" % outcome, cfg=cfg)
    except Exception as e:
        ctx.violation("C16/debug/refused-alter/pipeline-broken/%s" % type(e).__name__, "after alter_pipeline_for_debugging "
                      "(%s) the transformer part raises: %s" % (outcome, str(e)[:100]), cfg=cfg)
    ctx.cls("refused-alter=" + shape)


# ---------------------------------------------------------------- generator
def leaf(rng, width):
    from sklearn.preprocessing import StandardScaler, MinMaxScaler, Normalizer, PolynomialFeatures
    from sklearn.decomposition import PCA
    from sklearn.impute import SimpleImputer
    k = rng.randint(6)
    if k == 0:
        return StandardScaler(), width, "Std"
    if k == 1:
        return MinMaxScaler(), width, "MinMax"
    if k == 2:
        return Normalizer(), width, "Norm"
    if k == 3:
        return SimpleImputer(), width, "Imp"
    if k == 4 and width >= 2:
        nc = int(rng.randint(1, width + 1))
        return PCA(n_components=nc, random_state=0), nc, "PCA%d" % nc
    if width <= 3:
        p = PolynomialFeatures(2, include_bias=False)
        return p, width * (width + 3) // 2, "Poly"
    return StandardScaler(), width, "Std"


def gen_transformer(rng, width, depth, names):
    """returns (object, output width, description). names: column names if they still exist else None."""
    from sklearn.pipeline import Pipeline, FeatureUnion
    from sklearn.compose import ColumnTransformer
    r = rng.rand()
    if depth <= 0 or r < 0.35:
        return leaf(rng, width)
    if r < 0.55:
        n = int(rng.randint(2, 4))
        parts, desc, w = [], [], 0
        for i in range(n):
            o, wi, di = gen_transformer(rng, width, depth - 1, None)
            parts.append(("u%d" % i, o))
            desc.append(di)
            w += wi
        return FeatureUnion(parts), w, "Union(%s)" % ",".join(desc)
    if r < 0.8:
        n = int(rng.randint(1, 4))
        trs, desc, w = [], [], 0
        used = set()
        by_name = names is not None and rng.rand() < 0.6
        for i in range(n):
            k = int(rng.randint(1, width + 1))
            cols = sorted(rng.choice(width, k, replace=False).tolist())
            used.update(cols)
            sel = [names[c] for c in cols] if by_name else [int(c) for c in cols]
            if not by_name and rng.rand() < 0.2:
                sel = [int(c) - width for c in cols]          # positions counted from the end (valid in scikit-learn)
            # the same selection in another container (what df.columns[...] or numpy.arange(...) hand over)
            cont = rng.randint(4)
            if cont == 1:
                sel = numpy.array(sel, dtype=object if by_name else numpy.int64)
            elif cont == 2 and by_name:
                import pandas
                sel = pandas.Index(sel)
            elif cont == 3:
                sel = tuple(sel)
            if rng.rand() < 0.25:
                o, wi, di = "passthrough", k, "pass"
            else:
                o, wi, di = gen_transformer(rng, k, depth - 1, None)
            trs.append(("c%d" % i, o, sel))
            desc.append("%s%s" % (di, cols))
            w += wi
        if rng.rand() < 0.12 and trs:
            # an entry whose column selection is EMPTY (no categorical column in this table): scikit-learn skips it at
            # fit time, it is still an estimator nested in the pipeline that was given
            o, _, di = gen_transformer(rng, 1, depth - 1, None)
            trs.append(("cempty", o, [] if rng.rand() < 0.7 else ()))
            desc.append("%s[]" % di)
        rem = "drop"
        if rng.rand() < 0.3 and len(used) < width:
            rem = "passthrough"
            w += width - len(used)
        return ColumnTransformer(trs, remainder=rem), w, "CT[%s](%s|rem=%s)" % (
            "names" if by_name else "ints", ",".join(desc), rem)
    n = int(rng.randint(2, 4))
    steps, desc, w = [], [], width
    for i in range(n):
        if rng.rand() < 0.15:
            o, w, di = "passthrough", w, "pass"
        else:
            o, w, di = gen_transformer(rng, w, depth - 1, names if i == 0 else None)
        steps.append(("s%d" % i, o))
        desc.append(di)
    return Pipeline(steps), w, "Pipe(%s)" % ">".join(desc)


def gen_program(rng, tier):
    from sklearn.pipeline import Pipeline
    from sklearn.linear_model import LogisticRegression, LinearRegression
    from sklearn.tree import DecisionTreeClassifier
    import pandas
    width = int(rng.randint(2, 6))
    wide = rng.rand() < 0.1
    if wide:
        width = int(rng.randint(24, 34))     # a wide table: long column selections
    n = 30 if not wide else 60
    X = rng.randn(n, width)
    y = (X[:, 0] + X[:, 1] > 0).astype(int)
    schema = ["frame", "array", "names"][rng.randint(3)]
    base_names = ["a", "bb", "c", "d2", "e"] if not wide else ["column_%02d" % i for i in range(width)]
    names = base_names[:width] if schema != "array" else None
    depth = 3 if tier == "quick" else 4
    nsteps = int(rng.randint(1, 4))
    steps, desc, w = [], [], width
    for i in range(nsteps):
        o, w, di = gen_transformer(rng, w, depth - 1, names if i == 0 else None)
        steps.append(("t%d" % i, o))
        desc.append(di)
    final = [None, "logreg", "linreg", "tree", "kmeans", "lda"][rng.randint(6)]
    if final == "logreg":
        steps.append(("final", LogisticRegression(max_iter=200)))
    elif final == "linreg":
        steps.append(("final", LinearRegression()))
    elif final == "tree":
        steps.append(("final", DecisionTreeClassifier(max_depth=2, random_state=0)))
    elif final == "kmeans":      # a final step that has both transform and predict
        from sklearn.cluster import KMeans
        steps.append(("final", KMeans(n_clusters=2, n_init=1, random_state=0)))
    elif final == "lda":
        from sklearn.discriminant_analysis import LinearDiscriminantAnalysis
        steps.append(("final", LinearDiscriminantAnalysis()))
    desc.append(str(final))
    pipe = Pipeline(steps)
    data = pandas.DataFrame(X, columns=names) if schema != "array" else X
    return pipe, data, y, ">".join(desc), schema, final


# ---------------------------------------------------------------- oracles
def walk(p, coor=(0,)):
    from sklearn.pipeline import Pipeline, FeatureUnion
    from sklearn.compose import ColumnTransformer
    yield coor, p
    if isinstance(p, Pipeline):
        for i, (_, m) in enumerate(p.steps):
            yield from walk(m, coor + (i,))
    elif isinstance(p, FeatureUnion):
        for i, (_, m) in enumerate(p.transformer_list):
            yield from walk(m, coor + (i,))
    elif isinstance(p, ColumnTransformer):
        for i, (_, m, _c) in enumerate(p.transformers):
            yield from walk(m, coor + (i,))


class Dot:
    NODE = re.compile(r'^\s*([A-Za-z_][A-Za-z0-9_]*)\s*\[(.*)\]\s*;\s*$')
    EDGE = re.compile(r'^\s*([^\s;]+)\s*->\s*([^\s;]+)\s*;\s*$')
    ID = re.compile(r'^[A-Za-z_][A-Za-z0-9_]*(:[A-Za-z_][A-Za-z0-9_]*)?$')

    def __init__(self, text):
        self.text = text
        self.nodes = {}
        self.edges = []
        self.errors = []
        lines = text.split("\n")
        if not lines or lines[0].strip() != "digraph{" or lines[-1].strip() != "}":
            self.errors.append("not wrapped in digraph{ ... }")
        if text.count('"') % 2:
            self.errors.append("unbalanced quotes")
        if text.count("{") != text.count("}"):
            self.errors.append("unbalanced braces")
        for ln in lines[1:-1]:
            if not ln.strip():
                continue
            m = self.NODE.match(ln)
            if m:
                attrs = m.group(2)
                lab = re.search(r'label="([^"]*)"', attrs)
                ports = re.findall(r'<([A-Za-z0-9_]+)>', lab.group(1)) if lab else []
                self.nodes[m.group(1)] = {"label": lab.group(1) if lab else "", "ports": set(ports),
                                          "record": "shape=record" in attrs}
                continue
            m = self.EDGE.match(ln)
            if m:
                self.edges.append((m.group(1), m.group(2)))
                continue
            if re.match(r'^\s*[a-z]+=[^;]+;\s*$', ln):
                continue
            self.errors.append("unparsed statement %r" % ln.strip()[:60])

    def check(self):
        errs = list(self.errors)
        for a, b in self.edges:
            for ep in (a, b):
                if not self.ID.match(ep):
                    errs.append("edge endpoint %r is not an identifier" % ep)
                    continue
                name, _, port = ep.partition(":")
                if name not in self.nodes:
                    errs.append("edge endpoint %r is not a declared node" % ep)
                elif port and port not in self.nodes[name]["ports"]:
                    errs.append("port %r is not in the record label of %s" % (port, name))
        return errs

    def graph(self):
        g = {}
        for a, b in self.edges:
            g.setdefault(a.partition(":")[0], set()).add(b.partition(":")[0])
        return g

    def acyclic(self):
        g = self.graph()
        state = {}

        def dfs(u):
            state[u] = 1
            for v in g.get(u, ()):
                if state.get(v) == 1:
                    return False
                if v not in state and not dfs(v):
                    return False
            state[u] = 2
            return True
        return all(dfs(u) for u in list(g) if u not in state)

    def reachable(self, src):
        g = self.graph()
        seen, todo = {src}, [src]
        while todo:
            u = todo.pop()
            for v in g.get(u, ()):
                if v not in seen:
                    seen.add(v)
                    todo.append(v)
        return seen


def run_case(case, ctx):
    if case["gen"] == "refused-alter":
        return run_refused_alter(case, ctx)
    if case["gen"] == "text":
        return run_text(case, ctx)
    from sklearn.base import clone
    from sklearn.pipeline import Pipeline, FeatureUnion
    from sklearn.compose import ColumnTransformer
    from mlinsights.helpers.pipeline import enumerate_pipeline_models, alter_pipeline_for_debugging
    from mlinsights.plotting import pipeline2dot, pipeline2str
    rng = numpy.random.RandomState(case["sub"] % (2 ** 31))
    pipe, data, y, desc, schema, final = gen_program(rng, case.get("tier", "quick"))
    cfg = {"program": desc, "schema": schema, "sub": case["sub"]}
    try:
        pipe.fit(data, y)
    except Exception:
        ctx.excluded("invalid-program (scikit-learn refuses it)")
        return
    has_ct = any(isinstance(o, ColumnTransformer) for _, o in walk(pipe))
    has_union = any(isinstance(o, FeatureUnion) for _, o in walk(pipe))
    ctx.cls("schema=" + schema)
    ctx.cls("has-CT" if has_ct else "no-CT")
    ctx.cls("has-Union" if has_union else "no-Union")
    exp = list(walk(pipe))
    K = "C16/"
    # ---- enumerate
    try:
        got = list(enumerate_pipeline_models(pipe))
    except Exception as e:
        ctx.hit("enumerate")
        ctx.violation(K + "enumerate/raised/%s" % type(e).__name__, "%s: %s" % (type(e).__name__, str(e)[:150]),
                      cfg=cfg)
        return
    ctx.hit("enumerate")
    gc = [g[0] for g in got]
    ec = [e[0] for e in exp]
    if gc != ec:
        ctx.violation(K + "enumerate/coordinates", "coordinates %r, independent walk %r" % (gc[:8], ec[:8]), cfg=cfg)
    else:
        for (c, o, _vs), (_, eo) in zip(got, exp):
            if isinstance(eo, str):
                if type(o).__name__ != "PassThrough":
                    ctx.violation(K + "enumerate/passthrough", "passthrough at %r yielded as %r" % (c, o), cfg=cfg)
            elif o is not eo:
                ctx.violation(K + "enumerate/not-the-object", "object at %r is not the pipeline's own estimator" % (c,),
                              cfg=cfg)
    ctx.check(len(set(gc)) == len(gc), K + "enumerate/duplicate-coordinates", "coordinates are not distinct", cfg=cfg)
    ids = [id(o) for _, o, _ in got if type(o).__name__ != "PassThrough"]
    ctx.check(len(set(ids)) == len(ids), K + "enumerate/yielded-twice", "an estimator is yielded twice", cfg=cfg)
    seen = set()
    for c in gc:
        if len(c) > 1 and c[:-1] not in seen:
            ctx.violation(K + "enumerate/child-before-parent", "%r yielded before its parent" % (c,), cfg=cfg)
            break
        seen.add(c)
    # ---- pipeline2str
    for indent in (3, 2):
        try:
            text = pipeline2str(pipe, indent=indent)
        except Exception as e:
            ctx.hit("str")
            ctx.violation(K + "str/raised/%s" % type(e).__name__, "%s: %s" % (type(e).__name__, str(e)[:150]), cfg=cfg)
            break
        ctx.hit("str")
        lines = text.split("\n")
        if len(lines) != len(exp):
            ctx.violation(K + "str/line-count", "%d lines for %d models" % (len(lines), len(exp)), cfg=cfg)
            break
        for ln, (c, o) in zip(lines, exp):
            name = "PassThrough" if isinstance(o, str) else type(o).__name__
            ind = len(ln) - len(ln.lstrip(" "))
            if ind != indent * (len(c) - 1) or not ln.strip().startswith(name):
                ctx.violation(K + "str/line", "line %r for %s at depth %d (indent %d)" % (ln, name, len(c) - 1, indent),
                              cfg=cfg)
                break
    # ---- pipeline2dot
    empty_sel = "[]" in desc.replace("[names]", "").replace("[ints]", "")
    for dname, d in (("data", list(data.columns) if schema == "names" else data),):
        try:
            dot = pipeline2dot(pipe, d)
        except Exception as e:
            ctx.hit("dot.parsed")
            kind = "int-columns" if "CT[ints]" in desc else ("named-columns" if "CT[names]" in desc else "no-CT")
            if empty_sel:
                # (known finding: the drawing code takes max() of the selected positions)
                ctx.violation("C16/dot/raised/empty-column-selection", "pipeline2dot raises %s on a ColumnTransformer entry "
                              "whose column selection is empty: %s" % (type(e).__name__, str(e)[:100]), cfg=cfg)
                continue
            ctx.violation(K + "dot/raised/%s/%s" % (type(e).__name__, kind), "%s: %s" % (
                type(e).__name__, str(e)[:150]), cfg=cfg)
            continue
        ctx.hit("dot.parsed")
        if empty_sel:
            # a transformer that is given no column has no place in a data-flow graph from the inputs to the outputs: what
            # the drawing should show for it is not stated, the graph clauses are not judged for such programs
            ctx.excluded("pipeline2dot on a program with an empty column selection")
            continue
        D = Dot(dot)
        errs = D.check()
        kind = "int-columns" if "CT[ints]" in desc else ("named-columns" if "CT[names]" in desc else "no-CT")
        rem = "/remainder" if "rem=passthrough" in desc else ""
        if errs:
            ctx.violation(K + "dot/malformed/%s%s" % (kind, rem), "; ".join(errs[:3]), cfg=cfg, dot=dot[:600])
            continue
        if not D.acyclic():
            ctx.violation(K + "dot/cycle/%s%s" % (kind, rem), "the graph has a cycle", cfg=cfg)
            continue
        # every leaf model appears
        labels = [v["label"] for v in D.nodes.values() if not v["record"]]
        for c, o in exp:
            if isinstance(o, (Pipeline, FeatureUnion, ColumnTransformer)):
                continue
            name = "Identity" if isinstance(o, str) else type(o).__name__
            want = sum(1 for _, oo in exp if (("Identity" if isinstance(oo, str) else type(oo).__name__) == name)
                       and not isinstance(oo, (Pipeline, FeatureUnion, ColumnTransformer)))
            if labels.count(name) < want:
                ctx.violation(K + "dot/step-missing/%s%s" % (kind, rem), "%d nodes labelled %s for %d such steps" % (
                    labels.count(name), name, want), cfg=cfg)
                break
        cols = list(data.columns) if schema != "array" else ["X%d" % i for i in range(data.shape[1])]
        sch0 = D.nodes.get("sch0", {"label": ""})["label"]
        miss = [c for c in cols if not re.search(r'>\s*%s(\||$)' % re.escape(str(c)), sch0)]
        if miss:
            ctx.violation(K + "dot/input-column-missing/%s" % schema, "input columns %r not in the input schema node "
                          "(data given as %s)" % (miss, schema), cfg=cfg)
        ctx.hit("dot.reachability")
        reach = D.reachable("sch0")
        g = D.graph()
        sinks = [nm for nm in D.nodes if nm not in g and any(nm == b.partition(":")[0] for _, b in D.edges)]
        last = max((int(nm[3:]) for nm in D.nodes if nm.startswith("sch") and nm[3:].isdigit()), default=0)
        if "sch%d" % last not in reach:
            ctx.violation(K + "dot/final-output-unreachable/%s%s" % (kind, rem),
                          "the final schema sch%d is not reachable from the inputs" % last, cfg=cfg)
        dangling = [nm for nm in D.nodes if nm.startswith("node") and nm not in reach]
        if dangling:
            ctx.violation(K + "dot/step-unreachable/%s%s" % (kind, rem), "steps %r are not reachable from the inputs" % (
                dangling[:4],), cfg=cfg)
        try:
            p = subprocess.run(["/usr/bin/dot", "-Tplain"], input=dot.encode(), stdout=subprocess.PIPE,
                               stderr=subprocess.PIPE, timeout=30)
            ctx.hit("dot.graphviz_second_opinion")
            if p.returncode != 0:
                ctx.violation(K + "dot/graphviz-rejects", "graphviz: %s" % p.stderr.decode()[:150], cfg=cfg)
        except (OSError, subprocess.TimeoutExpired):
            ctx.excluded("graphviz-unavailable")
    # ---- alter_pipeline_for_debugging
    methods = [m for m in ("predict", "predict_proba", "decision_function", "transform") if hasattr(pipe, m)]
    Xa = data
    Xb = data.iloc[5:17] if schema != "array" else data[5:17]
    before = {}
    for m in methods:
        try:
            before[m] = (numpy.asarray(getattr(pipe, m)(Xa)), numpy.asarray(getattr(pipe, m)(Xb)))
        except Exception:
            before[m] = None
    try:
        alter_pipeline_for_debugging(pipe)
    except Exception as e:
        ctx.hit("debug.outputs_unchanged")
        ctx.violation(K + "debug/alter-raised/%s" % type(e).__name__, "%s: %s" % (type(e).__name__, str(e)[:150]),
                      cfg=cfg)
        return
    calls = []
    order = list(methods)
    rng.shuffle(order)
    for m in order:
        if before[m] is None:
            continue
        for which, Xq in ((0, Xa), (1, Xb)):
            try:
                # the batch given by position or by keyword (pipe.predict(X=data)): both are recorded
                by_keyword = (case["sub"] + which + len(m)) % 3 == 0
                out = getattr(pipe, m)(X=Xq) if by_keyword else getattr(pipe, m)(Xq)
                if by_keyword:
                    ctx.hit("debug.keyword_call")
            except Exception as e:
                ctx.violation(K + "debug/raised-after-alter/%s" % type(e).__name__, "%s after alteration: %s" % (
                    m, str(e)[:150]), cfg=cfg)
                continue
            ctx.hit("debug.outputs_unchanged")
            if not numpy.array_equal(numpy.asarray(out), before[m][which]):
                ctx.violation(K + "debug/output-changed", "%s differs after alter_pipeline_for_debugging" % m, cfg=cfg)
            calls.append((m, Xq, out))
            # records of the top-level pipeline: each method keeps ITS last call
            dbg = getattr(pipe, "_debug", None)
            last = {}
            for mm, xx, oo in calls:
                last[mm] = (xx, oo)
            for mm, (xx, oo) in last.items():
                ctx.hit("debug.records")
                if dbg is None or mm not in dbg.inputs or dbg.inputs[mm] is not xx:
                    ctx.violation(K + "debug/record-not-last-input/%s" % mm,
                                  "after calls %r the pipeline's record for %s is not the input of its last call" % (
                                      [c[0] for c in calls], mm), cfg=cfg)
                    break
                if mm not in dbg.outputs or not numpy.array_equal(numpy.asarray(dbg.outputs[mm]), numpy.asarray(oo)):
                    ctx.violation(K + "debug/record-not-last-output/%s" % mm,
                                  "after calls %r the pipeline's record for %s is not the output of its last call" % (
                                      [c[0] for c in calls], mm), cfg=cfg)
                    break
    # chaining along the top-level steps for the last call of each method
    if calls:
        m, Xq, out = calls[-1]
        steps = [s for _, s in pipe.steps if not isinstance(s, str)]
        prev_out = None
        for i, s in enumerate(steps):
            dbg = getattr(s, "_debug", None)
            meth = "transform" if i < len(steps) - 1 or not hasattr(s, m) else m
            if i == len(steps) - 1 and final is not None:
                meth = m
            if dbg is None or meth not in dbg.inputs:
                ctx.violation(K + "debug/step-without-record", "step %d (%s) has no record for %s after %s" % (
                    i, type(s).__name__, meth, m), cfg=cfg)
                break
            ctx.hit("debug.chain")
            if i == 0 and len(pipe.steps) == len(steps):
                if dbg.inputs[meth] is not Xq and not numpy.array_equal(numpy.asarray(dbg.inputs[meth]),
                                                                        numpy.asarray(Xq)):
                    ctx.violation(K + "debug/first-step-input", "the first step's recorded input is not the "
                                  "pipeline's input", cfg=cfg)
            if prev_out is not None and len(pipe.steps) == len(steps):
                if not numpy.array_equal(numpy.asarray(dbg.inputs[meth]), numpy.asarray(prev_out)):
                    ctx.violation(K + "debug/steps-do-not-chain", "input recorded for step %d (%s) is not the output "
                                  "recorded for step %d" % (i, type(s).__name__, i - 1), cfg=cfg)
                    break
            prev_out = dbg.outputs.get(meth)
        if steps and prev_out is not None and not numpy.array_equal(numpy.asarray(prev_out), numpy.asarray(out)):
            ctx.violation(K + "debug/last-step-output", "the last step's recorded output is not the pipeline's output",
                          cfg=cfg)
    # every estimator that took part in the calls has a record; members of a FeatureUnion all saw the union's input
    if calls:
        def under_ct(c):
            return any(isinstance(dict(exp)[c[:k]], ColumnTransformer) for k in range(1, len(c)))
        for c, o in exp:
            if isinstance(o, str):
                continue
            dbg = getattr(o, "_debug", None)
            has = dbg is not None and len(dbg.inputs) > 0
            ctx.hit("debug.every_step_recorded")
            if not has:
                if under_ct(c):
                    ctx.violation("C16/debug/no-record/column-transformer-child",
                                  "%s at %r (inside a ColumnTransformer) has no debug record: the fitted clones in "
                                  "transformers_ are not the altered objects" % (type(o).__name__, c), cfg=cfg)
                else:
                    ctx.violation(K + "debug/no-record/%s" % type(o).__name__,
                                  "%s at %r took part in the calls but has no debug record" % (type(o).__name__, c),
                                  cfg=cfg)
                break
            if isinstance(o, FeatureUnion) and "transform" in dbg.inputs and not under_ct(c):
                for _, mem in o.transformer_list:
                    md = getattr(mem, "_debug", None)
                    if isinstance(mem, str) or md is None or "transform" not in md.inputs:
                        continue
                    if md.inputs["transform"] is not dbg.inputs["transform"] and not numpy.array_equal(
                            numpy.asarray(md.inputs["transform"]), numpy.asarray(dbg.inputs["transform"])):
                        ctx.violation(K + "debug/union-member-input", "a FeatureUnion member's recorded input is not "
                                      "the union's input", cfg=cfg)
                        break
    # ---- a second alter_pipeline_for_debugging on the same pipeline is refused (documented); the pipeline keeps
    # working and keeps its outputs
    if calls:
        try:
            alter_pipeline_for_debugging(pipe)
            ctx.excluded("second alteration accepted")
        except AssertionError:
            ctx.hit("debug.second_alter_refused")
        except Exception as e:
            ctx.violation(K + "debug/second-alter/raised/%s" % type(e).__name__, "the second call is documented to "
                          "raise AssertionError, got %s: %s" % (type(e).__name__, str(e)[:120]), cfg=cfg)
        for m in methods:
            if before[m] is None:
                continue
            try:
                out = numpy.asarray(getattr(pipe, m)(Xb))
            except BaseException as e:  # noqa: B036 - RecursionError is a BaseException subclass of Exception anyway
                if isinstance(e, (KeyboardInterrupt, SystemExit)):
                    raise
                ctx.violation(K + "debug/second-alter/pipeline-broken/%s" % type(e).__name__, "after a refused second "
                              "alteration %s raises %s" % (m, type(e).__name__), cfg=cfg)
                break
            if not numpy.array_equal(out, before[m][1]):
                ctx.violation(K + "debug/second-alter/output-changed", "%s differs after a refused second alteration"
                              % m, cfg=cfg)
                break
    # ---- an input the pipeline refuses is refused in the same way once altered (the exception is the outcome)
    if calls:
        try:
            twin = clone(pipe)
            twin.fit(data, y)
        except Exception:
            twin = None
        if twin is not None:
            bads = {"not-fitted-width": (data.iloc[:, :1] if schema != "array" else data[:, :1]),
                    "none": None}
            for bname, Xbad in bads.items():
                for m in methods:
                    def outcome(obj):
                        try:
                            getattr(obj, m)(Xbad)
                            return "returned"
                        except Exception as e:
                            return type(e).__name__
                    a, b = outcome(twin), outcome(pipe)
                    ctx.hit("debug.refused_input_same_outcome")
                    if a != b:
                        ctx.violation(K + "debug/refused-input/other-exception", "%s on an input the pipeline refuses "
                                      "(%s): untouched pipeline -> %s, altered pipeline -> %s" % (m, bname, a, b),
                                      cfg=cfg)
                        break
    # ---- history with a refused call: a predict the FINAL estimator refuses (a missing value the transformers let
    # through), then the other methods on fresh batches: each is answered as before and recorded, the steps chain
    if calls and final is not None and "predict" in methods and before["predict"] is not None:
        Xnan = (data.iloc[5:17] if schema != "array" else data[5:17]).copy()
        if schema != "array":
            Xnan.iloc[0, 0] = numpy.nan
        else:
            Xnan[0, 0] = numpy.nan
        try:
            pipe.predict(Xnan)
            refused = False
        except Exception:
            refused = True
        if refused:
            steps = [s_ for _, s_ in pipe.steps if not isinstance(s_, str)]
            for m in [mm for mm in methods if mm != "predict" and before[mm] is not None] + ["predict"]:
                Xf = (data.iloc[5:17] if schema != "array" else data[5:17]).copy()
                try:
                    out = numpy.asarray(getattr(pipe, m)(Xf))
                except Exception as e:
                    ctx.violation(K + "debug/after-refused-predict/raised/%s" % type(e).__name__, "%s after a refused "
                                  "predict: %s" % (m, str(e)[:120]), cfg=cfg)
                    break
                ctx.hit("debug.after_refused_predict")
                if not numpy.array_equal(out, before[m][1]):
                    ctx.violation(K + "debug/after-refused-predict/output-changed", "%s differs after a refused "
                                  "predict" % m, cfg=cfg)
                    break
                dbg = getattr(pipe, "_debug", None)
                if dbg is None or dbg.inputs.get(m) is not Xf or not numpy.array_equal(
                        numpy.asarray(dbg.outputs.get(m)), out):
                    ctx.violation(K + "debug/after-refused-predict/pipeline-record-not-last-call/%s" % m,
                                  "after a predict refused by the final estimator, the pipeline's record for %s is not "
                                  "its last call" % m, cfg=cfg)
                    break
                if len(steps) == len(pipe.steps) and len(steps) >= 2 and m != "transform":
                    ld, pd_ = getattr(steps[-1], "_debug", None), getattr(steps[-2], "_debug", None)
                    if ld is None or pd_ is None or m not in ld.inputs or "transform" not in pd_.outputs:
                        continue
                    if not numpy.array_equal(numpy.asarray(ld.inputs[m]), numpy.asarray(pd_.outputs["transform"]),
                                             equal_nan=True) or not numpy.array_equal(numpy.asarray(ld.outputs[m]), out):
                        ctx.violation(K + "debug/after-refused-predict/steps-do-not-chain/%s" % m,
                                      "after a predict refused by the final estimator and a call of %s, the final "
                                      "step's record is not (output of the previous step, output of the pipeline)" % m,
                                      cfg=cfg)
                        break
    # ---- history: the altered pipeline is deep-copied and the copy is fitted again on other rows.  The copy still
    # answers like an untouched pipeline given the same fit, keeps its records on its own steps and leaves the
    # original's records alone
    if calls and case["sub"] % 2 == 0:
        import copy
        d2 = data.iloc[3:] if schema != "array" else data[3:]
        y2 = None if y is None else numpy.asarray(y)[3:]
        try:
            ref = clone(pipe)
            ref.fit(d2, y2)
            want = {m: numpy.asarray(getattr(ref, m)(Xb)) for m in methods if before[m] is not None}
            cp = copy.deepcopy(pipe)
        except Exception:
            ctx.excluded("copy history: clone / deepcopy / refit not possible for this program")
            want = None
        if want is not None:
            orig_rec = {m: pipe._debug.inputs.get(m) for m in methods} if getattr(pipe, "_debug", None) else {}
            try:
                cp.fit(d2, y2)
                for m in want:
                    got_m = numpy.asarray(getattr(cp, m)(Xb))
                    ctx.hit("debug.copy_history")
                    if got_m.shape != want[m].shape or not numpy.allclose(got_m, want[m], rtol=1e-9, atol=1e-12,
                                                                          equal_nan=True):
                        ctx.violation(K + "debug/copy-refit/output-differs", "a deep copy of the altered pipeline, fitted "
                                      "again, gives another %s than an untouched pipeline given the same fit" % m, cfg=cfg)
                        break
                    cd = getattr(cp, "_debug", None)
                    if cd is None or cd.inputs.get(m) is not Xb:
                        ctx.violation(K + "debug/copy-refit/record-not-last-input", "the copy's record for %s is not "
                                      "the input of its last call" % m, cfg=cfg)
                        break
                for m, rec in orig_rec.items():
                    if pipe._debug.inputs.get(m) is not rec:
                        ctx.violation(K + "debug/copy-refit/original-records-overwritten", "calls on the copy replaced the "
                                      "original pipeline's record for %s" % m, cfg=cfg)
                        break
            except Exception as e:
                ctx.violation(K + "debug/copy-refit/raised/%s" % type(e).__name__, str(e)[:150], cfg=cfg)
    if len(exp) >= 3 and (has_ct or has_union):
        ctx.nontriv(desc)
    ctx.sample({"program": desc, "schema": schema, "n_models": len(exp)})


def evaluations(counters, ncases):
    return int(counters.get("enumerate", 0))
