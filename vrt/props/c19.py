"""C19 - CategoriesToIntegers encodes each category by its own indicator and nothing else.

Oracle: a reference encoder applied cell by cell (25 lines below), compared with the real transform on
generated frames; unseen categories are planted in every (row, column) position in turn.
"""
import numpy

PROPERTY = "C19"
LEVEL = "exploration"
NEED_EXT = True
REQUIRED = ["history.refit", "transform.seen", "transform.unseen.raise", "transform.unseen.skip", "transform.single",
            "transform.index"]
RULE = ("frames with 1-4 categorical (dtype object) and 0-3 numeric columns, 1-6 categories, missing cells, four "
        "index kinds; options columns explicit/auto, remove, single, skip_errors; an unseen category planted at "
        "every (row, column) position; non-trivial = >= 2 categorical columns and >= 1 missing or unseen cell; "
        "distinct = distinct (options, frame fingerprint)")
ASSUMPTIONS = ["categorical columns are created with dtype=object (pandas 3 infers 'str', which the auto-detection "
               "does not select: environment drift, kept out of the domain)",
               "a category listed in `remove` is treated like an unseen one (error, or no indicator with skip_errors)",
               "column order of the result is not part of the property (documented as not preserved)"]

CATS = ["a", "bb", "c", "dd", "e", "zz", "A", "b b"]


def cases(tier, seed):
    n = 320 if tier == "quick" else 4000
    return [{"gen": "frame", "id": "frame-%d" % k, "sub": seed * 1000003 + k} for k in range(n)]


def reference(train, test, cat_cols, remove, single, skip_errors):
    """Returns (expected cells dict (row position, column name) -> value, error expected?)."""
    cats = {c: sorted(set(v for v in train[c].tolist() if not _missing(v))) for c in cat_cols}
    kept = {c: [v for v in cats[c] if "%s=%s" % (c, v) not in (remove or [])] for c in cat_cols}
    exp = {}
    err = False
    for i in range(len(test)):
        for c in test.columns:
            v = test[c].iloc[i]
            if c not in cat_cols:
                exp[(i, c)] = v
                continue
            known = (not _missing(v)) and v in kept[c]
            if not _missing(v) and not known and not skip_errors:
                err = True
            if single:
                exp[(i, c)] = float(kept[c].index(v)) if known else numpy.nan
            else:
                for u in kept[c]:
                    exp[(i, "%s=%s" % (c, u))] = 1.0 if (known and u == v) else numpy.nan
    return exp, err


def _missing(v):
    return v is None or (isinstance(v, float) and v != v)


def same(a, b):
    if _missing(a) and _missing(b):
        return True
    if _missing(a) or _missing(b):
        return False
    return a == b


def compare(ctx, key, out, exp, test, cfg, what):
    cols = sorted({c for (_, c) in exp})
    if sorted(out.columns.tolist()) != cols:
        ctx.violation(key + "/columns", "%s: columns %r, expected %r" % (what, sorted(out.columns.tolist())[:12],
                                                                        cols[:12]), cfg=cfg)
        return False
    if len(out) != len(test):
        ctx.violation(key + "/row-count", "%s: %d rows in, %d rows out" % (what, len(test), len(out)), cfg=cfg)
        return False
    if list(out.index) != list(test.index):
        ctx.violation(key + "/index", "%s: index changed %r -> %r" % (what, list(test.index)[:6],
                                                                     list(out.index)[:6]), cfg=cfg)
        return False
    for (i, c), v in exp.items():
        g = out[c].iloc[i]
        if not same(g, v):
            ctx.violation(key + "/cell", "%s: row %d column %r is %r, expected %r" % (what, i, c, g, v), cfg=cfg,
                          row=test.iloc[i].tolist())
            return False
    return True


def run_case(case, ctx):
    import pandas
    from mlinsights.mlmodel import CategoriesToIntegers
    rng = numpy.random.RandomState(case["sub"] % (2 ** 31))
    ncat = int(rng.randint(1, 5))
    nnum = int(rng.randint(0, 4))
    nrow = int(rng.randint(2, 9))
    names = ["k%d" % i for i in range(ncat)] + ["x%d" % i for i in range(nnum)]
    order = list(rng.permutation(len(names)))
    cat_cols_all = names[:ncat]
    intcat = rng.rand() < 0.15

    # how a missing cell is spelled: None, the numpy.nan singleton, or a float NaN that is not that singleton
    # (what float('nan'), a parsed file or arithmetic produce)
    misskind = ["None", "numpy.nan", "fresh-float-nan", "mixed"][case["sub"] % 4]

    def missing_value():
        k = misskind if misskind != "mixed" else ["None", "numpy.nan", "fresh-float-nan"][rng.randint(3)]
        return None if k == "None" else (numpy.nan if k == "numpy.nan" else float("nan"))

    def draw(n, pools, miss=0.15):
        data = {}
        for c in names:
            if c in cat_cols_all:
                col = numpy.empty(n, dtype=object)
                for i in range(n):
                    col[i] = missing_value() if rng.rand() < miss else pools[c][rng.randint(len(pools[c]))]
                data[c] = col
            else:
                r = rng.rand()
                data[c] = (rng.randn(n).round(3) if r < 0.6 else rng.randint(-5, 5, n) if r < 0.8
                           else (rng.rand(n) < 0.5) if r < 0.9 else rng.randn(n).astype(numpy.float32))
        df = pandas.DataFrame({names[j]: data[names[j]] for j in order})
        for c in cat_cols_all:
            df[c] = df[c].astype(object)
        return df

    pools = {}
    for c in cat_cols_all:
        k = int(rng.randint(1, 7))
        pools[c] = ([int(v) for v in rng.permutation(20)[:k]] if intcat else
                    [CATS[j] for j in rng.permutation(len(CATS))[:k]])
        if intcat and k >= 2 and case["sub"] % 2 == 0:
            # negative codes next to each other (-1 "unknown", -2 "refused"): distinct values, whatever their hashes are
            pools[c][:2] = [-1, -2]
    train = draw(nrow + 3, pools, miss=0.1)
    if ncat >= 2 and case["sub"] % 6 == 4 and not intcat:
        # a categorical column with no category at all at fit time (all missing): every value met later is unseen
        c0 = cat_cols_all[-1]
        col = numpy.empty(len(train), dtype=object)
        for i in range(len(train)):
            col[i] = missing_value()
        train[c0] = col
        train[c0] = train[c0].astype(object)
        ctx.cls("column-without-category-at-fit")
    same_vocab = bool(ncat >= 2 and case["sub"] % 6 == 5 and not intcat)
    if same_vocab:
        # two categorical columns with exactly the same training vocabulary (yes / no / unknown answers to two questions)
        c0, c1 = cat_cols_all[0], cat_cols_all[1]
        pools[c1] = list(pools[c0])
        vals = list(pools[c0])
        col0 = numpy.array([vals[i % len(vals)] for i in range(len(train))], dtype=object)
        col1 = numpy.array([vals[(i * 2 + 1) % len(vals)] for i in range(len(train))], dtype=object)
        col1[:min(len(vals), len(col1))] = vals[:len(col1)]
        col0[:min(len(vals), len(col0))] = vals[:len(col0)]
        if len(vals) > len(train):
            pools[c0] = pools[c1] = vals[:len(train)]
        train[c0], train[c1] = col0, col1
        train[c0], train[c1] = train[c0].astype(object), train[c1].astype(object)
        ctx.cls("two-columns-with-the-same-vocabulary")
    # every pool value appears at least once? not required: categories are what fit saw
    test = draw(nrow, pools)
    ikind = ["range", "shuffled", "offset", "strings", "duplicated"][case["sub"] % 5]
    if ikind == "shuffled":
        test.index = rng.permutation(len(test))
    elif ikind == "offset":
        test.index = numpy.arange(100, 100 + len(test))
    elif ikind == "strings":
        test.index = ["r%d" % i for i in rng.permutation(len(test))]
    elif ikind == "duplicated":
        test.index = [7] * len(test)      # a non-unique index: rows are still rows
    single = bool(rng.rand() < 0.3)
    explicit = bool(rng.rand() < 0.5) or intcat
    cat_cols = cat_cols_all if not explicit else [c for c in cat_cols_all if rng.rand() < 0.8] or cat_cols_all[:1]
    if not explicit:
        cat_cols = cat_cols_all
    remove = None
    if same_vocab:
        cat_cols = cat_cols_all
    if (rng.rand() < 0.2 or same_vocab) and not single:
        c = cat_cols[0]
        seen = sorted(set(v for v in train[c].tolist() if not _missing(v)))
        if len(seen) >= 2:
            remove = ["%s=%s" % (c, seen[0])]
    numeric_cat = bool(intcat and explicit and case["sub"] % 3 == 0)
    if numeric_cat:
        # categorical columns declared through `columns=` and stored with a numeric dtype (a hole makes them float)
        for c in cat_cols_all:
            train[c] = train[c].astype(float)
            test[c] = test[c].astype(float)
        ctx.cls("numeric-dtype-categories")
    bigids = bool(intcat and explicit and not numeric_cat and ncat >= 2 and case["sub"] % 2 == 0)
    if bigids:
        # 64-bit identifiers next to a float-typed categorical column: the first column holds integers above 2**53
        # (no hole, dtype int64), the second is float because of its holes - a common dtype for both would round the ids
        c0, c1 = cat_cols_all[0], cat_cols_all[1]
        base = 2 ** 53 + 1
        for fr in (train, test):
            v0 = [base + 2 * int(pools[c0].index(v)) if not _missing(v) else base for v in fr[c0].tolist()]
            fr[c0] = numpy.array(v0, dtype=numpy.int64)
            fr[c1] = fr[c1].astype(float)
        pools[c0] = [base + 2 * j for j in range(len(pools[c0]))]
        ctx.cls("int64-ids-above-2**53")
    catdtype = bool(explicit and not intcat and not numeric_cat and not bigids and case["sub"] % 5 == 0)
    if catdtype:
        # columns of pandas' `category` dtype whose declared levels are a superset of what the training frame holds
        # (a fixed vocabulary, a frame filtered after the conversion): a declared level is not a training category
        import pandas as _pd
        for c in cat_cols_all:
            levels = [v for v in pools[c] if not _missing(v)] + ["declared-never-seen"]
            if len(set(levels)) != len(levels) or not all(isinstance(v, str) for v in levels):
                catdtype = False
                break
        if catdtype:
            for c in cat_cols_all:
                levels = [v for v in pools[c] if not _missing(v)] + ["declared-never-seen"]
                train[c] = _pd.Categorical(train[c].tolist(), categories=levels)
                test[c] = _pd.Categorical(test[c].tolist(), categories=levels)
            ctx.cls("category-dtype-with-unused-levels")
    ctx.cls("missing=" + misskind)
    cfg = {"missing_as": misskind, "category_dtype": catdtype, "numeric_dtype_categories": numeric_cat, "int64_ids": bigids,
           "ncat": ncat, "nnum": nnum, "rows": nrow, "index": ikind, "single": single, "explicit_columns": explicit,
           "cat_cols": cat_cols, "remove": remove, "int_categories": intcat, "sub": case["sub"]}
    ctx.cls("index=" + ikind)
    ctx.cls("single" if single else "indicators")
    if remove:
        ctx.cls("remove")

    npflags = case["sub"] % 4 == 1      # flags given as numpy.bool_ (a cell of a parameter table)

    def make(skip):
        return CategoriesToIntegers(columns=list(cat_cols) if explicit else None, remove=remove,
                                    single=numpy.bool_(single) if npflags else single,
                                    skip_errors=numpy.bool_(skip) if npflags else skip)

    if not explicit and not all(train[c].dtype == object for c in cat_cols):
        ctx.excluded("env: pandas did not keep dtype object")
        return
    keep = test.copy(deep=True)
    for skip in (False, True):
        K = "C19/%s/%s" % ("single" if single else "indicators", "skip" if skip else "strict")
        tr = make(skip)
        try:
            r = tr.fit(train)
        except Exception as e:
            ctx.violation(K + "/fit-raised/%s" % type(e).__name__, "%s: %s" % (type(e).__name__, e), cfg=cfg)
            continue
        ctx.check(r is tr, K + "/fit-returns-not-self", "fit did not return the transformer", cfg=cfg)
        # 1. frame with seen categories and missing cells only
        exp, err = reference(train, test, cat_cols, remove, single, skip)
        try:
            out = tr.transform(test)
            raised = None
        except Exception as e:
            out, raised = None, e
        ctx.hit("transform.single" if single else "transform.seen")
        if err:
            if raised is None:
                ctx.violation(K + "/unseen-not-refused", "a category not kept at fit time was silently accepted",
                              cfg=cfg)
        elif raised is not None:
            ctx.violation(K + "/raised/%s" % type(raised).__name__, "transform raised on seen categories: %s: %s" % (
                type(raised).__name__, str(raised)[:200]), cfg=cfg)
        else:
            ctx.hit("transform.index")
            compare(ctx, K, out, exp, test, cfg, "seen categories")
        ctx.check(test.equals(keep), K + "/input-modified", "transform modified its input frame", cfg=cfg)
        # 1b. a batch without any row (a filter that selects nothing): the same columns, no row
        if raised is None and out is not None:
            try:
                out_e = tr.transform(test.iloc[0:0])
                ctx.hit("transform.empty_batch")
                if len(out_e) != 0 or list(out_e.columns) != list(out.columns):
                    missing_c = [c_ for c_ in out.columns if c_ not in list(out_e.columns)]
                    ctx.violation(K + "/empty-batch/columns", "transform of a frame without rows returns %d rows and columns "
                                  "%r; the same frame with rows gives columns %r (missing: %r)" % (
                                      len(out_e), list(out_e.columns)[:6], list(out.columns)[:6], missing_c[:4]), cfg=cfg)
            except Exception as e:
                ctx.violation(K + "/empty-batch/raised/%s" % type(e).__name__, str(e)[:150], cfg=cfg)
        # 2. an unseen category planted at every (row, column) position
        for i in range(len(test)):
            for c in cat_cols:
                t2 = test.copy(deep=True)
                col = t2[c].to_numpy(dtype=object, copy=True)
                # the unseen value is sometimes a falsy one ('' / 0 / False): still a value, still unseen
                falsy = (i + cat_cols.index(c) + case["sub"]) % 3 == 0
                col[i] = (0 if falsy and 0 not in pools[c] else 999) if intcat else ("" if falsy else "UNSEEN")
                t2[c] = col
                exp2, err2 = reference(train, t2, cat_cols, remove, single, skip)
                try:
                    out2 = tr.transform(t2)
                    raised2 = None
                except Exception as e:
                    out2, raised2 = None, e
                if not skip:
                    ctx.hit("transform.unseen.raise")
                    if raised2 is None:
                        ctx.violation(K + "/unseen-not-refused", "unseen category at row %d column %r did not raise"
                                      % (i, c), cfg=cfg)
                    elif not isinstance(raised2, (ValueError, TypeError)):
                        # ValueError is the documented refusal; with non-string categories building its
                        # message raises TypeError, still a refusal.  Anything else is an accident.
                        ctx.violation(K + "/unseen-wrong-exception/%s" % type(raised2).__name__,
                                      "unseen category raised %s instead of an error about the category: %s" % (
                                          type(raised2).__name__, str(raised2)[:150]), cfg=cfg)
                else:
                    ctx.hit("transform.unseen.skip")
                    if raised2 is not None:
                        ctx.violation(K + "/unseen-raised/%s" % type(raised2).__name__,
                                      "skip_errors=True but an unseen category at row %d column %r raised %s: %s" % (
                                          i, c, type(raised2).__name__, str(raised2)[:150]), cfg=cfg)
                    else:
                        compare(ctx, K + "/unseen", out2, exp2, t2, cfg,
                                "unseen category at row %d (position %d of %d) column %r" % (
                                    i, cat_cols.index(c), len(cat_cols), c))
        # 3. the same transformer after all those refused / skipping calls: the first frame gives the first answer
        if not err and raised is None:
            try:
                out3 = tr.transform(test)
                ctx.hit("transform.after_refused_calls")
                compare(ctx, K + "/after-refused-calls", out3, exp, test, cfg, "seen categories, after %d calls with an "
                        "unseen category on the same object" % (len(test) * len(cat_cols)))
            except Exception as e:
                ctx.violation(K + "/after-refused-calls/raised/%s" % type(e).__name__, str(e)[:150], cfg=cfg)
        if len(cat_cols) >= 2:
            ctx.nontriv(cfg, skip)
    # histories on one object with auto-detected columns: fitted on a frame with fewer categorical columns first
    # (or refused first), then on the full frame; a clone of a fitted object fitted on the full frame
    if not explicit and len(cat_cols) >= 2 and not remove:
        from sklearn.base import clone
        exp, err = reference(train, test, cat_cols, remove, single, True)
        small = train.drop(columns=cat_cols[1:])
        for hname in ("fit-narrow-then-full", "refused-then-full", "clone-of-fitted"):
            K = "C19/history/%s" % hname
            try:
                h = make(True)
                p0 = repr(sorted(h.get_params().items()))
                if hname == "fit-narrow-then-full":
                    h.fit(small)
                    h.transform(small)
                elif hname == "refused-then-full":
                    try:
                        h.fit(small.iloc[:0])
                    except Exception:
                        pass
                    try:
                        h.fit(None)
                    except Exception:
                        pass
                else:
                    h = clone(make(True).fit(small))
                ctx.check(repr(sorted(h.get_params().items())) == p0, K + "/params-changed",
                          "fit changed the parameters (columns=%r)" % (h.get_params().get("columns"),), cfg=cfg)
                h.fit(train)
                out = h.transform(test)
                ctx.hit("history.refit")
                compare(ctx, K, out, exp, test, cfg, hname)
            except Exception as e:
                ctx.violation(K + "/raised/%s" % type(e).__name__, str(e)[:150], cfg=cfg)
    # fit_transform = fit then transform
    tr = make(True)
    try:
        a = tr.fit_transform(train)
        b = make(True).fit(train).transform(train)
        ctx.check(a.equals(b), "C19/fit_transform-differs", "fit_transform != fit().transform()", cfg=cfg)
    except Exception as e:
        ctx.violation("C19/fit_transform-raised/%s" % type(e).__name__, "%s: %s" % (type(e).__name__, e), cfg=cfg)
    ctx.sample({"cfg": cfg, "test_head": test.head(2).to_dict("records")})


def evaluations(counters, ncases):
    return int(sum(counters.get(k, 0) for k in ("transform.seen", "transform.single", "transform.unseen.raise",
                                                "transform.unseen.skip")))
