"""C12 - tree utilities are faithful to the tree's decision function.

Oracles: numpy.digitize, Tree.apply, the children_left array, and for tree_node_range the routing
itself (x in box(leaf)  <=>  apply(x) == leaf), all on float32-representable inputs (scikit-learn
trees cast their input to float32).  The same workloads also run against the ASan+UBSan build of
_tree_digitize (flavour 'asan'): a sanitizer report with an mlinsights frame is a violation.
"""
import warnings

import numpy

PROPERTY = "C12"
LEVEL = "exploration"
NEED_EXT = True
REQUIRED = ["digitize.ascending", "digitize.descending", "predict_leaves", "leave_index", "node_range",
            "node_range.single_node", "asan.digitize"]
RULE = ("bins of every length 1-40 (thorough 1-130) in both directions, query points on every edge, at both float32 "
        "neighbours of every edge, mid-points and beyond both ends; fitted trees (regressor / classifier / extra "
        "tree, depth 0-8, depth-first and best-first builders, 1-5 features) queried at training points, at the "
        "thresholds, at their float32 neighbours and far away; non-trivial = >= 3 bins or >= 3 leaves; distinct = "
        "distinct (generator, parameters)")
ASSUMPTIONS = [
    "scikit-learn trees cast inputs to float32: the invariant is predict(x) == digitize(float64(float32(x)), bins); "
    "bins and queries are generated float32-representable except in the class 'float64-edges', where a mismatch "
    "explained by the cast alone is the known finding C12/digitize2tree/float32-cast-at-edge",
    "query points: finite float32 values up to +-max(float32), and the missing value nan, which scikit-learn trees "
    "route and numpy.digitize sorts last (infinite points are refused by scikit-learn)",
]

CASE_TIMEOUT = 600      # the 40 000-row tree takes half a minute on an idle machine


def cases(tier, seed):
    out = []
    mx = 40 if tier == "quick" else 130
    for n in range(1, mx + 1):
        out.append({"gen": "digitize", "id": "dig-%d" % n, "n": n, "sub": seed * 1009 + n})
    for n in (1, 2, 3, 7, 16, 33):
        out.append({"gen": "digitize", "id": "dig-asan-%d" % n, "n": n, "sub": seed * 1009 + n + 5000,
                    "flavour": "asan"})
    nt = 96 if tier == "quick" else 1200
    for k in range(nt):
        out.append({"gen": "tree", "id": "tree-%d" % k, "sub": seed * 100003 + k})
    for k in range(32 if tier == "quick" else 300):
        out.append({"gen": "tree", "id": "tree-nan-%d" % k, "sub": seed * 100003 + 9000 + k, "force": "nan-trained"})
    out.append({"gen": "tree", "id": "tree-deep-chain", "sub": seed * 100003 + 9900, "force": "deep-chain"})
    out.append({"gen": "tree", "id": "tree-many-leaves", "sub": seed * 100003 + 9901, "force": "many-leaves"})
    for k in range(4):
        out.append({"gen": "tree", "id": "tree-asan-%d" % k, "sub": seed * 100003 + 7000 + k, "flavour": "asan"})
    for k in range(6 if tier == "quick" else 40):
        out.append({"gen": "f64", "id": "f64-%d" % k, "sub": seed * 1009 + k})
    return out


def f32(a):
    return numpy.asarray(a, dtype=numpy.float32).astype(numpy.float64)


def neighbours(v):
    v32 = numpy.asarray(v, dtype=numpy.float32)
    up = numpy.nextafter(v32, numpy.float32(numpy.inf)).astype(numpy.float64)
    dn = numpy.nextafter(v32, numpy.float32(-numpy.inf)).astype(numpy.float64)
    return dn, up


def make_bins(rng, n, kind):
    if kind == "regular":
        b = numpy.arange(n, dtype=numpy.float64) * 0.5 - 3
    elif kind == "irregular":
        b = numpy.cumsum(rng.exponential(1.0, n)) - 5
    elif kind == "negative":
        b = -numpy.cumsum(rng.exponential(2.0, n))[::-1] - 1
    elif kind == "adjacent":
        b0 = numpy.float32(rng.randn())
        b = [b0]
        for _ in range(n - 1):
            b.append(numpy.nextafter(b[-1], numpy.float32(numpy.inf)))
        b = numpy.array(b, dtype=numpy.float64)
    else:  # huge
        b = numpy.sort(rng.uniform(-1e30, 1e30, n))
    b = numpy.unique(f32(b))
    return b


def run_digitize(case, ctx):
    from mlinsights.mltree import digitize2tree
    rng = numpy.random.RandomState(case["sub"] % (2 ** 31))
    n = case["n"]
    asan = case.get("flavour") == "asan"
    FMAX = float(numpy.finfo(numpy.float32).max)
    for kind in ("regular", "irregular", "negative", "adjacent", "huge", "open-ended", "outside-float32"):
        if kind in ("open-ended", "outside-float32"):
            # first / last edge infinite (open-ended bins) or finite but beyond the float32 range, in every combination
            bins_up = make_bins(rng, n, "irregular").astype(numpy.float64)
            lo, hi = (-numpy.inf, numpy.inf) if kind == "open-ended" else (-1e39 * (1 + rng.rand()), 1e39 * (1 + rng.rand()))
            which = rng.randint(3) if n > 1 else rng.randint(2)
            if len(bins_up) == n:
                if which in (0, 2):
                    bins_up[0] = lo
                if which in (1, 2):
                    bins_up[-1] = hi
                if n >= 3 and rng.rand() < 0.3:
                    # two edges outside the float32 range on the same side
                    if which in (0, 2):
                        bins_up[0], bins_up[1] = -numpy.inf, -1e39
                    else:
                        bins_up[-2], bins_up[-1] = 1e39, numpy.inf
        else:
            bins_up = make_bins(rng, n, kind)
        if len(bins_up) != n:
            ctx.excluded("bins-collapsed-in-float32")
            continue
        for direction in ("ascending", "descending"):
            bins = bins_up if direction == "ascending" else bins_up[::-1].copy()
            with numpy.errstate(all="ignore"):
                dn, up = neighbours(bins_up)
                mids = f32((bins_up[1:] + bins_up[:-1]) / 2) if n > 1 else numpy.array([])
            span = max(1.0, float(numpy.abs(bins_up[numpy.abs(bins_up) < 1e38]).max())) if (numpy.abs(bins_up) < 1e38).any() else 1.0
            beyond = f32([bins_up[0] - span, bins_up[-1] + span, -1e30 * 3, 1e30 * 3, 0.0])
            x = numpy.concatenate([bins_up, dn, up, mids, beyond, f32(rng.uniform(float(numpy.clip(bins_up[0], -1e30, 1e30)) - 1, float(numpy.clip(bins_up[-1], -1e30, 1e30)) + 1, 8))])
            x = x[numpy.isfinite(x) & (numpy.abs(x) <= FMAX)]
            # the extreme values scikit-learn accepts: a missing value, the largest float32 and its neighbours
            x = numpy.concatenate([x, [numpy.nan, -FMAX, FMAX, float(numpy.nextafter(numpy.float32(-FMAX), numpy.float32(0))),
                                       float(numpy.nextafter(numpy.float32(FMAX), numpy.float32(0)))]])
            cfg = {"n_bins": n, "kind": kind, "direction": direction}
            K = "C12/digitize2tree/"
            try:
                tree = digitize2tree(bins, right=True)
                pred = tree.predict(x.reshape(-1, 1))
            except Exception as e:
                ctx.hit("digitize." + direction)
                ctx.violation(K + "raised/%s" % type(e).__name__, "%s: %s" % (type(e).__name__, str(e)[:200]),
                              cfg=cfg)
                continue
            ctx.hit("asan.digitize" if asan else "digitize." + direction)
            exp = numpy.digitize(x, bins, right=True)
            if kind == "regular" and n <= 12:
                # integer-valued edges given as integer arrays of every width and signedness, as a list and as a
                # reversed view, queried with integer and float points
                for bdt in ("int64", "int32", "int16", "int8", "uint8", "uint16", "uint32", "uint64", "float32", "list",
                            "view"):
                    ib = numpy.arange(n) * 3 + 2
                    if not bdt.startswith("u"):
                        ib = ib - 7
                    ib = ib.astype(numpy.int64 if bdt in ("list", "view") else bdt)
                    if direction == "descending":
                        ib = ib[::-1] if bdt == "view" else ib[::-1].copy()
                    elif bdt == "view":
                        ib = numpy.concatenate([ib, ib])[::2][:n] if n == 1 else ib[::-1][::-1]
                    ix = numpy.arange(int(ib.min()) - 2, int(ib.max()) + 3).astype(numpy.int64)
                    arg = ib.tolist() if bdt == "list" else ib
                    for qname, q in (("int64", ix), ("float32", ix.astype(numpy.float32)), ("float64", ix.astype(float))):
                        try:
                            ti = digitize2tree(arg, right=True)
                            pi = ti.predict(q.reshape(-1, 1))
                            ctx.hit("digitize.integer_containers")
                            ei = numpy.digitize(q, numpy.asarray(ib, dtype=numpy.int64), right=True)
                            if not numpy.array_equal(pi, ei):
                                ctx.violation(K + "differs-from-numpy/integer-bins/%s" % bdt,
                                              "%s bins %r (%s), %s points: tree %r, numpy %r" % (
                                                  bdt, ib[:4].tolist(), direction, qname, pi[:6].tolist(),
                                                  ei[:6].tolist()), cfg=cfg)
                                break
                        except Exception as e:
                            ctx.violation(K + "raised/%s/integer-bins/%s" % (type(e).__name__, bdt), str(e)[:150],
                                          cfg=cfg)
                            break
                if n == 2:
                    # a step wider than half the range of a small integer type
                    wb = numpy.array([-100, 100] if direction == "ascending" else [100, -100], dtype=numpy.int8)
                    qw = numpy.array([-120.0, -100.0, 0.0, 100.0, 120.0])
                    try:
                        pw = digitize2tree(wb, right=True).predict(qw.reshape(-1, 1))
                        ctx.hit("digitize.integer_containers")
                        ew = numpy.digitize(qw, wb.astype(numpy.int64), right=True)
                        if not numpy.array_equal(pw, ew):
                            ctx.violation(K + "differs-from-numpy/integer-bins/int8-wide-step", "int8 bins %r: tree %r, "
                                          "numpy %r" % (wb.tolist(), pw.tolist(), ew.tolist()), cfg=cfg)
                    except Exception as e:
                        ctx.violation(K + "raised/%s/integer-bins/int8-wide-step" % type(e).__name__, str(e)[:150],
                                      cfg=cfg)
            if pred.shape != exp.shape or not numpy.array_equal(pred, exp):
                bad = numpy.where(pred != exp)[0]
                j = int(bad[0])
                where = ("missing-value" if numpy.isnan(x[j]) else "largest-float32" if abs(x[j]) == FMAX else
                         "above-all-edges" if x[j] > bins_up[-1] else "below-all-edges" if x[j] <= bins_up[0]
                         else "on-edge" if x[j] in bins_up else "between-edges")
                ctx.violation(K + "differs-from-numpy/%s/%s" % (direction, where),
                              "x=%r: tree %r, numpy.digitize %r (%d of %d points differ)" % (
                                  x[j], pred[j], exp[j], len(bad), len(x)), cfg=cfg, bins=bins[:6])
            # structure: one leaf per interval, predictions are integers in 0..n
            ctx.check(bool(((pred >= 0) & (pred <= n) & (pred == numpy.round(pred))).all()),
                      K + "prediction-range", "prediction outside 0..len(bins)", cfg=cfg)
            if n >= 3:
                ctx.nontriv("digitize", cfg)
            ctx.cls("bins=" + kind)
    # ---- history in one process: trees for both directions of the SAME edges, in both orders; a tree already handed
    # out keeps its predictions when the tree of the other direction is built afterwards
    for kind in ("regular", "irregular"):
        up = make_bins(rng, n, kind)
        if len(up) != n or n < 2:
            continue
        down = up[::-1].copy()
        x = numpy.concatenate([up, f32((up[1:] + up[:-1]) / 2), f32([up[0] - 1, up[-1] + 1])])
        for first, second, fname in ((down, up, "descending-then-ascending"), (up, down, "ascending-then-descending")):
            cfg = {"n_bins": n, "kind": kind, "history": fname}
            try:
                t1 = digitize2tree(first.copy(), right=True)
                p1 = t1.predict(x.reshape(-1, 1))
                t2 = digitize2tree(second.copy(), right=True)
                p2 = t2.predict(x.reshape(-1, 1))
                p1_again = t1.predict(x.reshape(-1, 1))
                t3 = digitize2tree(first.copy(), right=True)
                p3 = t3.predict(x.reshape(-1, 1))
            except Exception as e:
                ctx.violation("C12/digitize2tree/raised/%s/history" % type(e).__name__, str(e)[:150], cfg=cfg)
                continue
            ctx.hit("digitize.direction_history")
            e1, e2 = numpy.digitize(x, first, right=True), numpy.digitize(x, second, right=True)
            for what, got, exp_ in (("first tree", p1, e1), ("second tree", p2, e2),
                                    ("first tree after the second was built", p1_again, e1),
                                    ("first direction built again", p3, e1)):
                if not numpy.array_equal(got, exp_):
                    ctx.violation("C12/digitize2tree/differs-from-numpy/direction-history", "%s: %s differs from "
                                  "numpy.digitize (%d of %d points)" % (fname, what, int((got != exp_).sum()), len(x)),
                                  cfg=cfg)
                    break
    ctx.sample({"n_bins": n, "example_bins": make_bins(numpy.random.RandomState(0), min(n, 4), "irregular")})


def run_f64(case, ctx):
    """Generic float64 bins: a mismatch explained by the float32 cast alone is the known finding."""
    from mlinsights.mltree import digitize2tree
    rng = numpy.random.RandomState(case["sub"] % (2 ** 31))
    n = int(rng.randint(1, 12))
    bins = numpy.sort(rng.rand(n) * 10)
    if case["sub"] % 2:
        bins = numpy.array([0.1 * (i + 1) for i in range(n)])
    x = numpy.concatenate([bins, rng.rand(6) * 10])
    tree = digitize2tree(bins, right=True)
    pred = tree.predict(x.reshape(-1, 1))
    exp = numpy.digitize(x, bins, right=True)
    exp_cast = numpy.digitize(f32(x), bins, right=True)
    ctx.hit("digitize.float64_edges")
    ctx.cls("bins=float64-edges")
    cfg = {"n_bins": n, "kind": "float64-edges"}
    if not numpy.array_equal(pred, exp_cast):
        ctx.violation("C12/digitize2tree/differs-from-numpy/after-cast", "tree differs from digitize even on the "
                      "float32-cast value", cfg=cfg, bins=bins[:6])
    elif not numpy.array_equal(pred, exp):
        j = int(numpy.where(pred != exp)[0][0])
        ctx.violation("C12/digitize2tree/float32-cast-at-edge", "x=%r on edge %r: tree %r, numpy %r (float32(x)=%r)" % (
            x[j], bins[min(int(exp[j]), n - 1)], pred[j], exp[j], float(numpy.float32(x[j]))), cfg=cfg)


def make_tree(rng, force=None):
    from sklearn.tree import DecisionTreeRegressor, DecisionTreeClassifier, ExtraTreeRegressor
    d = int(rng.randint(1, 6))
    n = int(rng.randint(5, 120))
    X = f32(rng.randn(n, d) * rng.choice([1.0, 10.0]))
    if rng.rand() < 0.3:
        X = f32(numpy.round(X))  # many duplicated values => thresholds between lattice points
    kind = ["reg", "clf", "extra", "constant", "bestfirst-reg", "bestfirst-clf", "nan-trained"][rng.randint(7)]
    kind = force or kind
    depth = int(rng.randint(1, 9))
    if kind == "many-leaves":
        # a fully grown tree on 40 000 distinct rows: 79 999 nodes, leaf ids beyond 65 535
        from sklearn.tree import DecisionTreeRegressor as _DTR3
        n = 40000
        X = f32(rng.rand(n, 2) * 1000)
        y = rng.rand(n)
        m = _DTR3(random_state=0).fit(X, y)
        m._verif_y = y
        return m, X, kind, int(m.get_depth())
    if kind == "deep-chain":
        # a valid fitted tree deeper than the interpreter's recursion limit: every split peels off one row
        from sklearn.tree import DecisionTreeRegressor as _DTR
        n = 1300
        X = numpy.arange(n, dtype=numpy.float32).reshape(-1, 1).astype(numpy.float64)
        y = 1.5 ** numpy.arange(n)
        m = _DTR(random_state=0)
        with warnings.catch_warnings():
            warnings.simplefilter("ignore")
            m.fit(X, y)
        m._verif_y = y
        return m, X, kind, int(m.get_depth())
    y = X[:, 0] * 2 + numpy.sin(X[:, -1]) + rng.randn(n) * 0.1
    if kind == "nan-trained":
        # missing values in the training set: scikit-learn sends them to one side and may later isolate them with
        # a threshold of +inf; the targets of the rows with a hole are shifted so that the tree wants to do that
        hole = rng.rand(n) < 0.25
        col = int(rng.randint(d))
        y = y + 5.0 * hole
        X = X.copy()
        X[hole, col] = numpy.nan
    if kind in ("reg", "nan-trained"):
        m = DecisionTreeRegressor(max_depth=depth, random_state=0)
    elif kind == "clf":
        y = (y > numpy.median(y)).astype(int) + (X[:, 0] > 1).astype(int)
        m = DecisionTreeClassifier(max_depth=depth, random_state=0)
    elif kind == "extra":
        m = ExtraTreeRegressor(max_depth=depth, random_state=0)
    elif kind == "constant":
        y = numpy.ones(n)
        m = DecisionTreeRegressor(max_depth=depth, random_state=0)
    elif kind == "bestfirst-reg":
        m = DecisionTreeRegressor(max_leaf_nodes=int(rng.randint(2, 20)), random_state=0)
    else:
        y = (y > numpy.median(y)).astype(int)
        m = DecisionTreeClassifier(max_leaf_nodes=int(rng.randint(2, 20)), random_state=0)
    m.fit(X, y)
    m._verif_y = y
    return m, X, kind, depth


def in_box(box, Q):
    """lower bound exclusive, upper inclusive, NaN unbounded, features beyond the rows unbounded."""
    ok = numpy.ones(Q.shape[0], dtype=bool)
    for f in range(min(box.shape[0], Q.shape[1])):
        lo, hi = box[f]
        if not numpy.isnan(lo):
            ok &= Q[:, f] > lo
        if not numpy.isnan(hi):
            ok &= Q[:, f] <= hi
    return ok


def run_tree(case, ctx):
    rng = numpy.random.RandomState(case["sub"] % (2 ** 31))
    m, X, kind, depth = make_tree(rng, case.get("force"))
    check_tree(case, ctx, rng, m, X, kind, depth, "")
    # the same estimator object fitted again (reversed targets keep the number of leaves and move them; other
    # rows change everything): the helpers describe the tree the model holds now
    y = m._verif_y
    if case["sub"] % 2:
        m.fit(X, y[::-1].copy())
    else:
        keep = rng.rand(len(X)) < 0.6
        if keep.sum() >= 3:
            m.fit(X[keep], y[keep])
    ctx.hit("refit_history")
    check_tree(case, ctx, rng, m, X, kind, depth, "/after-refit")


def check_tree(case, ctx, rng, m, X, kind, depth, suffix):
    from mlinsights.mltree import predict_leaves, tree_leave_index, tree_node_range
    t = m.tree_
    d = X.shape[1]
    cfg = {"tree": kind, "max_depth": depth, "n_features": d, "n_nodes": int(t.node_count), "sub": case["sub"]}
    ctx.cls("tree=" + kind)
    # query points: training points, thresholds themselves and their float32 neighbours, far points
    Q = [X[~numpy.isnan(X).any(axis=1)], f32(rng.randn(30, d) * 100)]
    inner = numpy.where(t.children_left != -1)[0]
    for node in inner[:40]:
        f, th = t.feature[node], t.threshold[node]
        base = numpy.nan_to_num(X[rng.randint(len(X), size=3)].copy(), nan=0.0)
        if not numpy.isfinite(th):
            continue
        dn, up = neighbours(th)
        for v in (float(numpy.float32(th)), float(dn), float(up)):
            q = base.copy()
            q[:, f] = v
            Q.append(q)
    Q = f32(numpy.vstack(Q))
    app = m.apply(Q)
    K = "C12/"
    S = suffix
    # predict_leaves == apply
    try:
        pl = predict_leaves(m, Q)
        ctx.hit("predict_leaves")
        if not numpy.array_equal(numpy.asarray(pl), app):
            ctx.violation(K + "predict_leaves/differs-from-apply" + S, "%d of %d rows get another leaf than apply" % (
                int((numpy.asarray(pl) != app).sum()), len(app)), cfg=cfg)
    except Exception as e:
        ctx.hit("predict_leaves")
        ctx.violation(K + "predict_leaves/raised/%s" % type(e).__name__ + S, "%s: %s" % (type(e).__name__, e), cfg=cfg)
    # the same batch object refilled in place
    try:
        buf = Q.copy()
        predict_leaves(m, buf)
        buf[:] = Q[::-1]
        ctx.hit("predict_leaves.buffer_refilled")
        if not numpy.array_equal(numpy.asarray(predict_leaves(m, buf)), m.apply(buf)):
            ctx.violation(K + "predict_leaves/differs-from-apply/buffer-refilled-in-place" + S, "predict_leaves on an "
                          "array refilled in place answers for its previous content", cfg=cfg)
    except Exception as e:
        ctx.violation(K + "predict_leaves/raised/%s" % type(e).__name__ + S, str(e)[:150], cfg=cfg)
    # tree_leave_index == {i: children_left[i] == -1}
    leaves = [int(i) for i in numpy.where(t.children_left == -1)[0]]
    try:
        li = [int(i) for i in tree_leave_index(m)]
        ctx.hit("leave_index")
        ctx.check(li == leaves, K + "tree_leave_index/wrong" + S, "tree_leave_index=%r, leaves=%r" % (li[:8], leaves[:8]),
                  cfg=cfg)
        li2 = [int(i) for i in tree_leave_index(t)]
        ctx.check(li2 == leaves, K + "tree_leave_index/wrong" + S, "tree_leave_index(tree_) differs", cfg=cfg)
    except Exception as e:
        ctx.hit("leave_index")
        ctx.violation(K + "tree_leave_index/raised/%s" % type(e).__name__, "%s: %s" % (type(e).__name__, e), cfg=cfg)
    # tree_node_range(leaf) is the box of exactly the points routed to the leaf
    for leaf in leaves[:60]:
        try:
            box = numpy.asarray(tree_node_range(m, leaf), dtype=float)
        except Exception as e:
            ctx.hit("node_range")
            ctx.violation(K + "tree_node_range/raised/%s%s" % (type(e).__name__,
                                                                "/single-node" if len(leaves) == 1 else ""),
                          "%s: %s" % (type(e).__name__, e), cfg=cfg, leaf=leaf)
            break
        ctx.hit("node_range.single_node" if len(leaves) == 1 else "node_range")
        if box.ndim != 2 or (box.size and box.shape[1] != 2) or box.shape[0] > d:
            ctx.violation(K + "tree_node_range/shape", "range has shape %r for %d features" % (box.shape, d), cfg=cfg)
            break
        # the caller writes into the array it was given (NaN sides replaced by the range of the data before drawing) and
        # asks again: the answer is the box, not what the caller made of the previous answer
        try:
            raw = tree_node_range(m, leaf)
            if isinstance(raw, numpy.ndarray) and raw.size and raw.flags.writeable:
                keep_box = numpy.array(raw, dtype=float, copy=True)
                raw[...] = -12345.0
                again_box = numpy.asarray(tree_node_range(m, leaf), dtype=float)
                ctx.hit("node_range.after_caller_wrote_into_the_result")
                if again_box.shape != keep_box.shape or not numpy.array_equal(again_box, keep_box, equal_nan=True):
                    ctx.violation(K + "tree_node_range/answer-follows-the-callers-edits" + S, "leaf %d: the array returned "
                                  "by a first call was overwritten by the caller; a second call returns %r instead of "
                                  "%r" % (leaf, again_box.tolist()[:2], keep_box.tolist()[:2]), cfg=cfg)
                    break
        except Exception as e:
            ctx.violation(K + "tree_node_range/raised/%s/second-call" % type(e).__name__, str(e)[:120], cfg=cfg)
            break
        inside = in_box(box, Q)
        routed = app == leaf
        if not numpy.array_equal(inside, routed):
            a = int((inside & ~routed).sum())
            b = int((~inside & routed).sum())
            builder = "best-first" if kind.startswith("bestfirst") else "depth-first"
            ctx.violation(K + "tree_node_range/box-differs-from-routing/%s" % builder + S,
                          "leaf %d: %d points inside the box are routed elsewhere, %d routed points are outside" % (
                              leaf, a, b), cfg=cfg, box=box)
            break
    # ---- the documented two-step use with the parents computed once, while ANOTHER tree is being looked at in between:
    # parents of this tree, then parents and a range of a second tree, then the ranges of this tree with its own parents
    try:
        from mlinsights.mltree.tree_structure import tree_node_parents
        from sklearn.tree import DecisionTreeRegressor as _DTR2
        pa = tree_node_parents(m)
        rb = numpy.random.RandomState(len(leaves) + d)
        Xb2 = rb.randn(40, d)
        other = _DTR2(max_depth=3, random_state=1).fit(Xb2, Xb2[:, -1] * 3 + rb.randn(40) * 0.1)
        tree_node_parents(other)
        for lf_ in tree_leave_index(other)[:3]:
            tree_node_range(other, lf_)
        for leaf in leaves[:20]:
            b_pre = numpy.asarray(tree_node_range(m, leaf, pa), dtype=float)
            b_now = numpy.asarray(tree_node_range(m, leaf), dtype=float)
            ctx.hit("node_range.with_precomputed_parents")
            if b_pre.shape != b_now.shape or not numpy.array_equal(b_pre, b_now, equal_nan=True) or not numpy.array_equal(
                    in_box(b_pre, Q), app == leaf):
                ctx.violation(K + "tree_node_range/precomputed-parents-differ" + S, "leaf %d: the range computed with the "
                              "parents obtained before another tree was inspected is not the box of the points routed to "
                              "the leaf" % leaf, cfg=cfg)
                break
    except Exception as e:
        ctx.violation(K + "tree_node_range/raised/%s/precomputed-parents" % type(e).__name__, str(e)[:120], cfg=cfg)
    if suffix:
        return
    if len(leaves) >= 3:
        ctx.nontriv("tree", cfg)
    ctx.sample({"cfg": cfg, "n_query_points": int(len(Q)), "n_leaves": len(leaves)})


def run_case(case, ctx):
    {"digitize": run_digitize, "tree": run_tree, "f64": run_f64}[case["gen"]](case, ctx)


def evaluations(counters, ncases):
    return int(sum(v for k, v in counters.items() if not k.startswith("sanitizer")))
