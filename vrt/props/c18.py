"""C18 - correlation and comparable-score metrics are well defined.

Monitors on the return values of non_linear_correlations (shape, range, min<=mean<=max, DataFrame vs array
under the same seed, labels, unit diagonal for a linear model, input bytes) and a differential monitor of
r2_score_comparable against sklearn.metrics.r2_score over all (tr, inv_tr) pairs.
"""
import itertools

import numpy

PROPERTY = "C18"
LEVEL = "exploration"
NEED_EXT = False
REQUIRED = ["nlc.range", "nlc.minmax", "nlc.frame_vs_array", "nlc.diagonal", "nlc.input_bytes",
            "r2.pairs", "r2.refusal"]
RULE = ("tables with 2-6 columns, n 10-300 from classes gaussian / constant column / duplicated column / collinear / "
        "integer dtype, models linear / shallow tree / kNN, draws 1-5; r2: all ordered pairs of "
        "{None,'log','exp',sqrt,square,log1p} on positive data with and without sample_weight and multi-output; "
        "non-trivial = table with a degenerate column or >= 3 columns, or a pair with two different transforms; "
        "distinct = distinct (generator, parameters)")
ASSUMPTIONS = ["train_test_split draws from numpy's global generator: the DataFrame/array clause seeds it "
               "identically before both calls", "entries compared with tolerance 1e-12 (min<=mean<=max) and 1e-6 (diagonal)"]

TABLES = ["gauss", "constant-column", "duplicated-column", "collinear", "integers", "two-constants", "few-rows"]
MODELS = ["linear", "tree", "knn"]


def cases(tier, seed):
    out = []
    n = 96 if tier == "quick" else 1200
    for k in range(n):
        out.append({"gen": "nlc", "id": "nlc-%d" % k, "sub": seed * 100003 + k})
    for k in range(24 if tier == "quick" else 300):
        out.append({"gen": "r2", "id": "r2-%d" % k, "sub": seed * 100003 + k})
    return out


def make_table(rng, kind):
    n = int(rng.randint(10, 300 if kind == "gauss" else 120))
    d = int(rng.randint(2, 7))
    if kind == "few-rows":
        n = int(rng.randint(2, 5))         # the smallest tables the half / half split accepts: a test half of one row
    X = rng.randn(n, d)
    X[:, 1] += X[:, 0] * rng.uniform(0.5, 2)
    if kind == "constant-column":
        X[:, rng.randint(d)] = 3.5
    elif kind == "two-constants" and d >= 3:
        X[:, 0] = 1.0
        X[:, d - 1] = -2.0
    elif kind == "duplicated-column":
        X[:, d - 1] = X[:, 0]
    elif kind == "collinear":
        X[:, d - 1] = 2 * X[:, 0] - X[:, 1]
    elif kind == "integers":
        X = rng.randint(-5, 6, size=(n, d))
    return X


def make_model(name):
    from sklearn.linear_model import LinearRegression
    from sklearn.tree import DecisionTreeRegressor
    from sklearn.neighbors import KNeighborsRegressor
    return {"linear": LinearRegression, "tree": lambda: DecisionTreeRegressor(max_depth=3, random_state=0),
            "knn": lambda: KNeighborsRegressor(n_neighbors=3)}[name]()


def run_nlc(case, ctx):
    # one case in four runs under scikit-learn's process-wide transform_output="pandas" (set once at the top of a
    # notebook): the function still returns its matrices
    import sklearn
    if case["sub"] % 4 == 1:
        ctx.cls("sklearn.transform_output=pandas")
        with sklearn.config_context(transform_output="pandas"):
            ctx.hit("nlc.under_transform_output_pandas")
            return _run_nlc(case, ctx)
    return _run_nlc(case, ctx)


def _run_nlc(case, ctx):
    import pandas
    from mlinsights.metrics import non_linear_correlations
    rng = numpy.random.RandomState(case["sub"] % (2 ** 31))
    kind = TABLES[case["sub"] % len(TABLES)]
    mname = MODELS[(case["sub"] // len(TABLES)) % len(MODELS)]
    if kind == "few-rows" and mname == "knn":
        mname = "tree"          # three neighbours cannot be found in a training half of one or two rows
    X = make_table(rng, kind)
    d = X.shape[1]
    draws = int(rng.randint(1, 6))
    cols = ["v%d" % i for i in range(d)] if case["sub"] % 2 else ["b", "a", "zz", "c", "y", "k"][:d]
    if case["sub"] % 7 == 2:
        cols = [0, "b", 2, "d", 4, "f"][:d]       # labels of mixed types (positions and names): still one per variable
    if case["sub"] % 5 == 3:
        X[:, 0] = X[:, 0].astype(numpy.float32)      # representable: the frame below stores this column as float32
    df = pandas.DataFrame(X.copy(), columns=cols)
    if case["sub"] % 3 == 0:
        df.index = numpy.arange(100, 100 + len(df)) if case["sub"] % 2 else numpy.random.RandomState(
            case["sub"] % 997).permutation(len(df))
    colkind = "float64"
    if case["sub"] % 5 == 1 and d >= 2:
        # a numeric column stored as objects (after .T, .astype(object), a mixed-type CSV): still a variable
        df[cols[1]] = df[cols[1]].astype(object)
        colkind = "one-object-column"
    elif case["sub"] % 5 == 3:
        df = df.astype({cols[0]: numpy.float32})
        colkind = "one-float32-column"
    cfg = {"table": kind, "model": mname, "n": X.shape[0], "d": d, "draws": draws, "sub": case["sub"],
           "frame_columns": colkind}
    ctx.cls("frame-columns=" + colkind)
    ctx.cls("table=" + kind)
    ctx.cls("model=" + mname)
    K = "C18/nlc/"
    Xk = X.copy()
    dfk = df.copy(deep=True)
    axes_before = (list(df.columns.names), list(df.index.names), dict(df.attrs))
    seed = case["sub"] % 1000
    try:
        numpy.random.seed(seed)
        ca, mia, maa = non_linear_correlations(X, make_model(mname), draws=draws, minmax=True)
        numpy.random.seed(seed)
        cf, mif, maf = non_linear_correlations(df, make_model(mname), draws=draws, minmax=True)
        numpy.random.seed(seed)
        c1 = non_linear_correlations(X, make_model(mname), draws=draws)
    except Exception as e:
        ctx.hit("nlc.range")
        ctx.violation(K + "raised/%s/%s" % (kind, type(e).__name__), "%s: %s" % (type(e).__name__, str(e)[:200]),
                      cfg=cfg)
        return
    ctx.hit("nlc.range")
    for name, M in (("mean", ca), ("min", mia), ("max", maa), ("frame-mean", numpy.asarray(cf)),
                    ("frame-min", numpy.asarray(mif)), ("frame-max", numpy.asarray(maf)), ("single", c1)):
        M = numpy.asarray(M, dtype=float)
        if M.shape != (d, d):
            ctx.violation(K + "shape", "%s matrix has shape %r for %d variables" % (name, M.shape, d), cfg=cfg)
            return
        if numpy.isnan(M).any():
            ctx.violation(K + "nan-entry/%s" % ("degenerate-column" if kind != "gauss" else "regular"),
                          "%s matrix has %d NaN entries" % (name, int(numpy.isnan(M).sum())), cfg=cfg)
            return
        if (M < -1e-12).any() or (M > 1 + 1e-12).any():
            ctx.violation(K + "outside-0-1", "%s matrix has an entry outside [0, 1]: min %r max %r" % (
                name, M.min(), M.max()), cfg=cfg)
            return
    ctx.hit("nlc.minmax")
    for (mi, me, ma, nm) in ((mia, ca, maa, "array"), (numpy.asarray(mif), numpy.asarray(cf), numpy.asarray(maf),
                                                        "frame")):
        if not ((mi <= me + 1e-12) & (me <= ma + 1e-12)).all():
            ctx.violation(K + "min-mean-max-order", "min <= mean <= max violated (%s input)" % nm, cfg=cfg)
    ctx.check(numpy.allclose(c1, ca, rtol=0, atol=1e-12), K + "minmax-changes-mean",
              "the correlation matrix differs with and without minmax under the same seed", cfg=cfg)
    judge_fa = kind != "integers" or mname == "linear"
    if not judge_fa:
        # integer lattices are full of exact ties; scale() of a DataFrame (column-major block) and of a
        # row-major array differ in the last bit, which flips tie-breaks inside trees / kNN: judged with the
        # linear model only
        ctx.excluded("frame-vs-array on a tie-heavy integer table with a tie-breaking model")
    else:
        ctx.hit("nlc.frame_vs_array")
    if judge_fa and not (numpy.allclose(numpy.asarray(cf), ca, rtol=0, atol=1e-9)
            and numpy.allclose(numpy.asarray(mif), mia, rtol=0, atol=1e-9)
            and numpy.allclose(numpy.asarray(maf), maa, rtol=0, atol=1e-9)):
        ctx.violation(K + "frame-differs-from-array", "DataFrame and array give different values under the same seed",
                      cfg=cfg)
    # a model that would remember a previous fit if it were reused (warm_start): the function fits a fresh clone for
    # every pair of variables, so the flag cannot matter
    if case["sub"] % 4 == 2 and X.shape[0] <= 120:
        try:
            from sklearn.ensemble import RandomForestRegressor, GradientBoostingRegressor
            mk = [lambda ws: RandomForestRegressor(n_estimators=4, max_depth=3, random_state=0, warm_start=ws),
                  lambda ws: GradientBoostingRegressor(n_estimators=6, max_depth=2, random_state=0, warm_start=ws)][
                      (case["sub"] // 4) % 2]
            numpy.random.seed(seed)
            cw = non_linear_correlations(Xk.copy(), mk(True), draws=min(draws, 2))
            numpy.random.seed(seed)
            cn = non_linear_correlations(Xk.copy(), mk(False), draws=min(draws, 2))
            ctx.hit("nlc.stateful_model")
            if not numpy.allclose(cw, cn, rtol=0, atol=1e-12, equal_nan=True):
                i, j = numpy.argwhere(~numpy.isclose(cw, cn, rtol=0, atol=1e-12, equal_nan=True))[0]
                ctx.violation(K + "model-reused-between-fits", "with warm_start=True the entry (%d, %d) is %.6g, with "
                              "warm_start=False %.6g under the same seed: a model is fitted again without being "
                              "cloned" % (i, j, cw[i, j], cn[i, j]), cfg=cfg)
        except Exception as e:
            ctx.violation(K + "raised/%s/%s" % (kind, type(e).__name__), "ensemble model: %s" % str(e)[:150], cfg=cfg)
    # a model whose parameter is a generator OBJECT (random_state=RandomState(s)): frame and array agree when each call
    # gets an equivalent model, and the model the caller passed is not modified (generator not advanced, not fitted)
    if case["sub"] % 4 == 0 and X.shape[0] <= 150:
        try:
            from sklearn.tree import DecisionTreeRegressor as _DT
            def mkrs():
                return _DT(max_depth=3, splitter="random", random_state=numpy.random.RandomState(case["sub"] % 97))
            ma, mb = mkrs(), mkrs()
            st0 = ma.random_state.get_state()[1].copy()
            numpy.random.seed(seed)
            ra = non_linear_correlations(df, ma, draws=min(draws, 2))
            numpy.random.seed(seed)
            rb = non_linear_correlations(Xk.copy() if colkind == "float64" else df.to_numpy(dtype=float), mb,
                                         draws=min(draws, 2))
            ctx.hit("nlc.model_with_generator_object")
            if not numpy.array_equal(ma.random_state.get_state()[1], st0) or hasattr(ma, "tree_"):
                ctx.violation(K + "model-argument-modified", "the model passed by the caller was modified (its "
                              "RandomState advanced: %s, fitted: %s)" % (
                                  not numpy.array_equal(ma.random_state.get_state()[1], st0), hasattr(ma, "tree_")),
                              cfg=cfg)
            elif kind != "integers" and not numpy.allclose(numpy.asarray(ra), numpy.asarray(rb), rtol=0, atol=1e-9):
                # (not on the tie-heavy integer tables: see the frame-vs-array clause above)
                ctx.violation(K + "frame-differs-from-array/model-with-generator-object", "equivalent models (same "
                              "RandomState seed) give different matrices for the frame and for its array", cfg=cfg)
        except Exception as e:
            ctx.violation(K + "raised/%s/%s" % (kind, type(e).__name__), "model with a generator object: %s" % (
                str(e)[:150]), cfg=cfg)
    # the same array object refilled in place between two calls
    try:
        other = make_table(numpy.random.RandomState(case["sub"] % 997 + 1), kind)
        if other.shape == Xk.shape:
            buf = Xk.astype(float).copy()
            numpy.random.seed(seed)
            non_linear_correlations(buf, make_model(mname), draws=draws)
            buf[:] = other
            numpy.random.seed(seed)
            second = non_linear_correlations(buf, make_model(mname), draws=draws)
            numpy.random.seed(seed)
            fresh = non_linear_correlations(other.astype(float).copy(), make_model(mname), draws=draws)
            ctx.hit("nlc.buffer_refilled")
            if not numpy.allclose(second, fresh, rtol=0, atol=1e-12, equal_nan=True):
                ctx.violation(K + "buffer-refilled-in-place", "the result for an array refilled in place is not the "
                              "result for its new content", cfg=cfg)
    except Exception as e:
        ctx.violation(K + "raised/%s/%s" % (kind, type(e).__name__), "second call on a refilled array: %s" % (
            str(e)[:150]), cfg=cfg)
    for M in (cf, mif, maf):
        if not (hasattr(M, "columns") and list(M.columns) == cols and list(M.index) == cols):
            ctx.violation(K + "labels-lost", "result for a DataFrame does not keep the variable names", cfg=cfg,
                          got=getattr(M, "columns", None))
            break
    if mname == "linear" and kind != "few-rows":
        # (on one or two training rows no model is "able to learn the identity": the clause does not apply)
        ctx.hit("nlc.diagonal")
        dg = numpy.diag(ca)
        ctx.check(bool(numpy.allclose(dg, 1, rtol=0, atol=1e-6)), K + "diagonal-not-1",
                  "diagonal for LinearRegression is %r" % (dg,), cfg=cfg)
    ctx.hit("nlc.input_bytes")
    ctx.check(numpy.array_equal(X, Xk) and X.dtype == Xk.dtype, K + "input-modified", "the array was modified", cfg=cfg)
    # other memory layouts of the same table: column-major, transposed view of a (features, samples) array
    for lname, Xl in (("fortran-order", numpy.asfortranarray(Xk.astype(float))),
                      ("transposed-view", numpy.ascontiguousarray(Xk.astype(float).T).T)):
        keep = Xl.copy()
        numpy.random.seed(seed)
        try:
            cl = non_linear_correlations(Xl, make_model(mname), draws=draws)
        except Exception as e:
            ctx.violation(K + "raised/%s/%s" % (lname, type(e).__name__), str(e)[:150], cfg=cfg)
            continue
        ctx.hit("nlc.input_bytes")
        if not numpy.array_equal(Xl, keep):
            ctx.violation(K + "input-modified/%s" % lname, "the caller's %s array was modified in place" % lname,
                          cfg=cfg)
        if kind != "integers" and not numpy.allclose(cl, ca, rtol=0, atol=1e-9):
            ctx.violation(K + "layout-changes-values/%s" % lname, "values depend on the memory layout", cfg=cfg)
    ctx.check(df.equals(dfk) and list(df.index) == list(dfk.index), K + "input-modified",
              "the DataFrame was modified", cfg=cfg)
    # ... its axes too: names of the column / row axis, attrs, labels, dtypes
    axes_after = (list(df.columns.names), list(df.index.names), dict(df.attrs))
    ctx.hit("nlc.frame_axes_untouched")
    ctx.check(axes_after == axes_before and list(df.columns) == cols and [str(t) for t in df.dtypes] == [
        str(t) for t in dfk.dtypes], K + "input-modified/frame-axes",
        "the DataFrame's axes were modified: (columns.names, index.names, attrs) %r -> %r" % (
            axes_before[:3], axes_after[:3]), cfg=cfg)
    if kind != "gauss" or d >= 3:
        ctx.nontriv("nlc", cfg)
    ctx.sample({"cfg": cfg, "mean_row0": ca[0], "min_row0": mia[0], "max_row0": maa[0]})


def _user_log():
    def log(a):            # the caller's own function, which happens to be called log: a decimal logarithm
        return numpy.log10(a)
    return log


def _user_exp():
    def exp(a):            # the caller's own exp: powers of ten
        return 10.0 ** a
    return exp


TR = {"None": None, "log": "log", "exp": "exp", "sqrt": numpy.sqrt, "square": numpy.square, "log1p": numpy.log1p,
      "callable-named-log": _user_log(), "callable-named-exp": _user_exp()}
REF = {"None": lambda a: a, "log": numpy.log, "exp": numpy.exp, "sqrt": numpy.sqrt, "square": numpy.square,
       "log1p": numpy.log1p, "callable-named-log": numpy.log10, "callable-named-exp": lambda a: 10.0 ** a}


def run_r2(case, ctx):
    from sklearn.metrics import r2_score
    from mlinsights.metrics import r2_score_comparable
    rng = numpy.random.RandomState(case["sub"] % (2 ** 31))
    n = int(rng.randint(5, 80))
    multi = case["sub"] % 3 == 0
    shape = (n, 2) if multi else (n,)
    y = rng.uniform(0.2, 3.0, size=shape)
    p = y * rng.uniform(0.7, 1.3, size=shape)
    w = rng.rand(n) + 0.1 if case["sub"] % 2 else None
    mo = ["uniform_average", "raw_values", "variance_weighted"][case["sub"] % 3] if multi else "uniform_average"
    yk, pk = y.copy(), p.copy()
    for a, b in itertools.product(TR, TR):
        cfg = {"tr": a, "inv_tr": b, "n": n, "multi": multi, "weighted": w is not None, "multioutput": mo}
        if a == "None" and b == "None":
            ctx.hit("r2.refusal")
            try:
                r2_score_comparable(y, p, tr=None, inv_tr=None)
                ctx.violation("C18/r2/both-none-accepted", "tr=None and inv_tr=None was not refused", cfg=cfg)
            except (ValueError, TypeError):
                pass
            continue
        try:
            got = r2_score_comparable(y, p, sample_weight=w, multioutput=mo, tr=TR[a], inv_tr=TR[b])
        except Exception as e:
            ctx.hit("r2.pairs")
            ctx.violation("C18/r2/raised/%s" % type(e).__name__, "%s: %s" % (type(e).__name__, e), cfg=cfg)
            continue
        ctx.hit("r2.pairs")
        exp = r2_score(REF[a](y), REF[b](p), sample_weight=w, multioutput=mo)
        if not numpy.allclose(got, exp, rtol=1e-12, atol=1e-12):
            which = "both-given" if a != "None" and b != "None" else ("tr-only" if b == "None" else "inv_tr-only")
            ctx.violation("C18/r2/differs-from-r2_score/%s" % which,
                          "r2_score_comparable(tr=%s, inv_tr=%s)=%r, r2_score(f(y), g(p))=%r" % (a, b, got, exp),
                          cfg=cfg)
        if a != b and a != "None" and b != "None":
            ctx.nontriv("r2", a, b, multi, w is not None)
    # default arguments of the public function: both None => refused
    ctx.hit("r2.refusal")
    try:
        r2_score_comparable(y, p)
        ctx.violation("C18/r2/both-none-accepted", "default call (no tr, no inv_tr) was not refused")
    except (ValueError, TypeError):
        pass
    # unknown name must not be silently treated as identity
    try:
        r2_score_comparable(y, p, tr="sqrt")
        ctx.violation("C18/r2/unknown-name-accepted", "an unknown function name was accepted")
    except (TypeError, ValueError, KeyError):
        pass
    # a pair that shares state (a standardiser learnt on the targets by tr, applied to the predictions by inv_tr):
    # r2_score(f(y), g(p)) evaluates f(y) first, then g(p)
    if not multi:
        class Standardiser:
            def fit_transform(self, a):
                self.m_, self.s_ = float(numpy.mean(a)), float(numpy.std(a))
                return (a - self.m_) / self.s_

            def transform(self, a):
                return (a - self.m_) / self.s_

        for used_before in (False, True):
            sc, ref_sc = Standardiser(), Standardiser()
            if used_before:
                sc.fit_transform(y * 50 + 7)
                ref_sc.fit_transform(y * 50 + 7)
            try:
                got = r2_score_comparable(y, p, tr=sc.fit_transform, inv_tr=sc.transform)
            except Exception as e:
                ctx.violation("C18/r2/raised/%s/stateful-pair" % type(e).__name__, "tr=scaler.fit_transform, "
                              "inv_tr=scaler.transform: %s" % str(e)[:120], n=n, used_before=used_before)
                continue
            ctx.hit("r2.stateful_pair")
            exp = r2_score(ref_sc.fit_transform(y), ref_sc.transform(p))
            if not numpy.allclose(got, exp, rtol=1e-12, atol=1e-12):
                ctx.violation("C18/r2/differs-from-r2_score/stateful-pair", "tr learns a scaling on the targets that "
                              "inv_tr applies to the predictions: got %r, r2_score(f(y), g(p)) = %r" % (got, exp),
                              n=n, used_before=used_before)
    # the SAME callable object on both sides, and one that looks at the whole vector (scaling by the maximum, centring,
    # ranks): f(y) and f(p) are two calls
    for fname, f in (("scale-by-max", lambda v: v / numpy.max(v, axis=0)), ("centre", lambda v: v - numpy.mean(v, axis=0)),
                     ("ranks", lambda v: numpy.argsort(numpy.argsort(v, axis=0), axis=0).astype(float))):
        try:
            got = r2_score_comparable(y, p, sample_weight=w, multioutput=mo, tr=f, inv_tr=f)
            exp = r2_score(f(y), f(p), sample_weight=w, multioutput=mo)
        except Exception as e:
            ctx.violation("C18/r2/raised/%s/same-callable" % type(e).__name__, str(e)[:120], function=fname)
            continue
        ctx.hit("r2.same_callable_both_sides")
        if not numpy.allclose(got, exp, rtol=1e-12, atol=1e-12):
            ctx.violation("C18/r2/differs-from-r2_score/same-callable-both-sides", "tr and inv_tr are the same callable (%s): "
                          "%r, r2_score(f(y), f(p)) = %r" % (fname, got, exp), n=n, multi=multi)
    # targets / predictions held in pandas containers, with transformations written for them (Series.std has ddof=1, a
    # frame's sum is per column, rank and clip are Series methods): f and g receive what the caller gave
    import pandas
    idx = numpy.random.RandomState(case["sub"] % 991).permutation(n) + 5
    ys = pandas.Series(y, index=idx) if not multi else pandas.DataFrame(y, columns=["t0", "t1"], index=idx)
    ps = pandas.Series(p, index=idx) if not multi else pandas.DataFrame(p, columns=["t0", "t1"], index=idx)

    def zscore(a):
        return (a - a.mean()) / a.std()

    def share(a):
        return a / a.sum()

    def ranks(a):
        return a.rank()

    for fname, f in (("zscore", zscore), ("share", share), ("ranks", ranks)):
        for which in ("tr", "inv_tr"):
            cfgp = {"container": "pandas", "function": fname, "given_as": which, "n": n, "multi": multi}
            try:
                if which == "tr":
                    got = r2_score_comparable(ys, ps, tr=f, multioutput=mo)
                    exp = r2_score(f(ys), ps, multioutput=mo)
                else:
                    got = r2_score_comparable(ys, ps, inv_tr=f, multioutput=mo)
                    exp = r2_score(ys, f(ps), multioutput=mo)
            except Exception as e:
                ctx.hit("r2.pandas_containers")
                ctx.violation("C18/r2/raised/%s/pandas-containers" % type(e).__name__, "%s=%s on pandas targets: %s" % (
                    which, fname, str(e)[:120]), **cfgp)
                continue
            ctx.hit("r2.pandas_containers")
            if not numpy.allclose(got, exp, rtol=1e-12, atol=1e-12):
                ctx.violation("C18/r2/differs-from-r2_score/pandas-containers", "targets and predictions given as pandas "
                              "objects, %s=%s: %r, r2_score(f(y), g(p)) = %r" % (which, fname, got, exp), **cfgp)
    ctx.check(numpy.array_equal(y, yk) and numpy.array_equal(p, pk), "C18/r2/input-modified", "inputs modified")
    ctx.cls("r2")


def run_case(case, ctx):
    {"nlc": run_nlc, "r2": run_r2}[case["gen"]](case, ctx)


def evaluations(counters, ncases):
    return int(counters.get("nlc.range", 0) + counters.get("r2.pairs", 0))
