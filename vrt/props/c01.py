"""C01 - parameter protocol: get_params / set_params / clone round trip for every estimator.

History monitor with an executable model of the scikit-learn parameter contract (a shadow parameter
store): after every operation of a generated history of get_params / set_params / clone calls the
object's get_params(deep=True) must equal the shadow store updated by the contract:
   set_params(k=v)      -> store[k] = v; if v is an estimator (or a list of estimators under the stacking
                            naming) the nested keys k__* (k_<i>__*) are replaced by v's own; nothing else moves
   set_params returns the estimator itself
   clone                -> same class, equal parameters, not fitted, sub-estimators not shared
Every key advertised by get_params(deep=True) of every registered configuration is set at least once
(enumerated).  The behaviour clause (B.set_params(**A.get_params(deep=True)) makes B behave as A) is
checked by fitting both on the same data for the estimators that can be fitted here.
"""
import numpy

PROPERTY = "C01"
LEVEL = "exploration"
NEED_EXT = True
REQUIRED = ["get_params", "set_params.key", "set_params.returns_self", "clone", "roundtrip.params",
            "roundtrip.behaviour", "history.steps", "rebuild.behaviour", "witness", "history.refused_call", "set_params.two_steps", "history.untouched_values_identical", "history.end_behaviour",
            "refused_component.behaviour"]
RULE = ("every registered class (32) x its configurations (2-4 each: nested estimators, stacking lists of 1, 2 and 12 "
        "members, string/callable options, SkBase kwargs) x every key advertised by get_params(deep=True) set once "
        "(enumerated) x random histories of 4-12 get/set/clone operations; non-trivial = configuration with nested "
        "or indexed keys, or history with >= 2 set_params; distinct = distinct (class, configuration, key | history)")
ASSUMPTIONS = ["alternative values are type-directed (bool flipped, int+1, float*0.5+0.25, other instance of an "
               "estimator) or taken from a per-class table of valid options; keys without a known valid alternative "
               "are counted as skipped",
               "values are compared by identity for objects given to set_params, by == / array_equal otherwise",
               "QuantileMLPRegressor.fit cannot run in this environment (scikit-learn 1.9 calls _backprop with an "
               "extra argument): its behaviour clause is not reached"]
CASE_TIMEOUT = 300


def cases(tier, seed):
    from vrt import registry
    out = []
    for name in registry.names():
        out.append({"gen": "keys", "id": "keys-%s" % name, "cls": name, "sub": seed})
        for h in range(4 if tier == "quick" else 40):
            out.append({"gen": "history", "id": "hist-%s-%d" % (name, h), "cls": name, "sub": seed * 100003 + h})
    return out


# ------------------------------------------------------------------ value helpers
from vrt.registry import SKIP  # noqa: E402


def is_est(v):
    return hasattr(v, "get_params") and not isinstance(v, type)


def eq(a, b, depth=0):
    if a is b:
        return True
    if is_est(a) and is_est(b):
        if type(a) is not type(b):
            return False
        pa, pb = a.get_params(deep=False), b.get_params(deep=False)
        return set(pa) == set(pb) and all(eq(pa[k], pb[k], depth + 1) for k in pa)
    if isinstance(a, numpy.ndarray) or isinstance(b, numpy.ndarray):
        try:
            return numpy.array_equal(numpy.asarray(a), numpy.asarray(b))
        except Exception:
            return False
    if isinstance(a, (list, tuple)) and isinstance(b, (list, tuple)):
        return type(a) is type(b) and len(a) == len(b) and all(eq(x, y, depth + 1) for x, y in zip(a, b))
    if isinstance(a, dict) and isinstance(b, dict):
        return set(a) == set(b) and all(eq(a[k], b[k], depth + 1) for k in a)
    try:
        if isinstance(a, float) and isinstance(b, float) and a != a and b != b:
            return True
        return bool(a == b)
    except Exception:
        return False


def alt_value(spec, key, cur, rng, est=None):
    """A valid value different from `cur` for parameter `key`, or (None, False).  The per-class table is
    authoritative: a key listed there without a differing value has no alternative."""
    leaf = key.split("__")[-1]
    for k in (key, leaf):
        if k in spec.alts:
            for mk in spec.alts[k]:
                try:
                    v = mk(est)
                except TypeError:
                    v = mk()
                if v is not SKIP and not eq(v, cur):
                    return v, True
            return None, False
    if isinstance(cur, bool):
        return (not cur), True
    if isinstance(cur, (int, numpy.integer)) and not isinstance(cur, bool):
        return int(cur) + 1, True
    if isinstance(cur, (float, numpy.floating)):
        return float(cur) * 0.5 + 0.25, True
    if is_est(cur):
        from sklearn.base import clone
        try:
            c = clone(cur)
        except Exception:
            return None, False
        if not type(cur).__module__.startswith("sklearn."):
            return c, True   # library classes may validate values: another instance with equal parameters
        for k, v in c.get_params(deep=False).items():
            if k in ("copy_X", "copy_x", "copy", "warm_start", "verbose"):
                continue
            if isinstance(v, bool):
                c.set_params(**{k: not v})
                return c, True
            if isinstance(v, (int, float)) and not isinstance(v, bool) and v is not None:
                try:
                    c.set_params(**{k: v * 2 + 1})
                    return c, True
                except Exception:
                    continue
        return c, True   # another instance with equal parameters: identity must change
    return None, False


PREFIX = {"ClassifierAfterKMeans": {"clus": "c_", "estimator": "e_"}}   # advertised naming of nested keys


def opaque_keys(est):
    """Free-form keywords kept in the SkBase parameter store: their values are reported as they are, the class does not
    advertise nested keys for them (an estimator kept there is a value like any other)."""
    P = getattr(est, "P", None)
    try:
        return set(P.to_dict()) if P is not None else set()
    except Exception:
        return set()


def expected_after(before, update, cls=None, est=None):
    """The contract: exactly the given keys change (plus the nested keys of a replaced sub-estimator, where the class
    advertises nested keys for that parameter)."""
    import re
    exp = dict(before)
    opaque = opaque_keys(est) if est is not None else set()
    pmap = PREFIX.get(cls, {})
    for k in [k for k in update if k in pmap]:
        v = update[k]
        exp[k] = v
        for kk in [x for x in exp if x.startswith(pmap[k]) and x not in pmap]:
            del exp[kk]
        for kk, vv in v.get_params(deep=True).items():
            if "__" not in kk:
                exp[pmap[k] + kk] = vv
    update = {k: v for k, v in update.items() if k not in pmap}
    # containers first, nested keys afterwards (the order scikit-learn applies them in)
    for k in sorted(update, key=lambda s: s.count("__")):
        v = update[k]
        exp[k] = v
        # whatever replaces a sub-estimator (another estimator, a name, None), its nested keys go with it
        pat = re.compile("^%s_\\d+__" % re.escape(k))
        for kk in [x for x in exp if x.startswith(k + "__") or pat.match(x)]:
            del exp[kk]
        if k in opaque:
            continue
        if is_est(v):
            for kk, vv in v.get_params(deep=True).items():
                exp[k + "__" + kk] = vv
        elif isinstance(v, list) and v and all(is_est(m) for m in v):
            for i, m in enumerate(v):
                for kk, vv in m.get_params(deep=True).items():
                    exp["%s_%d__%s" % (k, i, kk)] = vv
    return exp


def diff_params(got, exp):
    out = []
    for k in sorted(set(got) | set(exp)):
        if k not in got:
            out.append("%s missing" % k)
        elif k not in exp:
            out.append("%s unexpected" % k)
        elif not eq(got[k], exp[k]):
            out.append("%s=%r (expected %r)" % (k, _short(got[k]), _short(exp[k])))
    return out


def _short(v):
    r = repr(v)
    return r if len(r) < 60 else r[:57] + "..."


def key_kind(key):
    import re
    if re.match(r"^models_\d+__", key):
        i = int(key.split("_")[1].split("_")[0]) if key.split("_")[1].isdigit() else int(re.match(r"^models_(\d+)__", key).group(1))
        return "indexed>=10" if i >= 10 else "indexed"
    if key.startswith(("c_", "e_")) and "__" not in key:
        return "prefixed"
    if "__" in key:
        return "nested"
    return "top"


def safe_get(est, ctx, K, cfg, deep=True):
    try:
        p = est.get_params(deep=deep)
    except Exception as e:
        ctx.violation(K + "get_params/raised/%s" % type(e).__name__, "get_params(deep=%s) raised %s: %s" % (
            deep, type(e).__name__, str(e)[:150]), cfg=cfg)
        return None
    ctx.hit("get_params")
    return p


def freeze(v, depth=0):
    """Value (not identity) description of a parameter value: used to notice that an instance nobody touched
    reports other parameters than before (state shared between instances)."""
    if is_est(v) and depth < 4:
        try:
            return ("est", type(v).__name__, tuple(sorted((k, repr(freeze(x, depth + 1)))
                                                          for k, x in v.get_params(deep=False).items())))
        except Exception:
            return ("est", type(v).__name__)
    if isinstance(v, numpy.ndarray):
        return ("arr", v.shape, v.dtype.str, v.tobytes())
    if isinstance(v, (list, tuple)):
        return (type(v).__name__, tuple(freeze(x, depth + 1) for x in v))
    if isinstance(v, dict):
        return ("dict", tuple(sorted((repr(k), repr(freeze(x, depth + 1))) for k, x in v.items())))
    if isinstance(v, float) and v != v:
        return "nan"
    if v is None or isinstance(v, (bool, int, float, str)):
        return v
    return ("obj", type(v).__name__, getattr(v, "__name__", None))


def freeze_params(est):
    return {k: freeze(v) for k, v in est.get_params(deep=True).items()}


def check_witness(wit, w0, ctx, K, cfg):
    """`wit` was built like the instance under test and never touched."""
    ctx.hit("witness")
    try:
        w1 = freeze_params(wit)
    except Exception as e:
        ctx.violation(K + "witness/get_params-raised/%s" % type(e).__name__, "an instance nobody touched cannot "
                      "report its parameters any more: %s" % str(e)[:150], cfg=cfg)
        return
    bad = sorted(k for k in set(w0) | set(w1) if w0.get(k, "<absent>") != w1.get(k, "<absent>"))
    if bad:
        ctx.violation(K + "witness/untouched-instance-changed", "set_params / clone calls on one instance changed what "
                      "another instance, built the same way and never touched, reports: %s" % ", ".join(
                          "%s: %s -> %s" % (k, _short(w0.get(k)), _short(w1.get(k))) for k in bad[:3]), cfg=cfg)


def fitted_attrs(est):
    return [k for k in vars(est) if k.endswith("_") and not k.startswith("__") and not k.endswith("__")]


def check_clone(spec, est, ctx, K, cfg, fresh_attrs):
    from sklearn.base import clone
    try:
        c = clone(est)
    except Exception as e:
        ctx.hit("clone")
        if spec.name == "SkBaseTransformStacking" and any(
                hasattr(m, "method") and hasattr(m, "model") and m.method != est.method for m in est.models):
            ctx.violation("C01/SkBaseTransformStacking/clone/method-not-propagated-to-members",
                          "after set_params(method=%r) the members still wrap their models with %r: the reported "
                          "parameters no longer rebuild the object and clone raises %s" % (
                              est.method, [getattr(m, "method", None) for m in est.models][:3], type(e).__name__),
                          cfg=cfg)
            return None
        ctx.violation(K + "clone/raised/%s" % type(e).__name__, "clone raised %s: %s" % (type(e).__name__, str(e)[:200]),
                      cfg=cfg)
        return None
    ctx.hit("clone")
    if type(c) is not type(est) or c is est:
        ctx.violation(K + "clone/not-a-new-instance", "clone returned %r" % type(c).__name__, cfg=cfg)
        return None
    pa, pb = safe_get(est, ctx, K, cfg), safe_get(c, ctx, K, cfg)
    if pa is None or pb is None:
        return c
    d = diff_params(pb, pa)
    if d:
        ctx.violation(K + "clone/parameters-differ", "clone reports other parameters: %s" % "; ".join(d[:3]), cfg=cfg)
    extra = [a for a in fitted_attrs(c) if a not in fresh_attrs]
    if extra:
        ctx.violation(K + "clone/is-fitted", "clone carries fitted attributes %r" % extra[:4], cfg=cfg)
    for k, v in pa.items():
        if is_est(v) and "__" not in k and pb.get(k) is v:
            ctx.violation(K + "clone/shares-sub-estimator", "clone shares the sub-estimator %r with the original" % k,
                          cfg=cfg)
            break
    return c


def run_keys(case, ctx):
    from vrt import registry
    spec = registry.get(case["cls"])
    rng = numpy.random.RandomState(case["sub"])
    K = "C01/%s/" % spec.name
    for vi in range(len(spec.variants)):
        cfg = {"class": spec.name, "variant": vi}
        try:
            est = spec.make(vi)
        except Exception as e:
            ctx.violation(K + "construct/raised/%s" % type(e).__name__, str(e)[:150], cfg=cfg)
            continue
        fresh = set(fitted_attrs(est))
        p = safe_get(est, ctx, K, cfg)
        if p is None:
            continue
        shallow = safe_get(est, ctx, K, cfg, deep=False)
        if shallow is not None and not set(shallow) <= set(p):
            ctx.violation(K + "get_params/deep-misses-shallow-keys", "deep=True lacks %r" % sorted(set(shallow) - set(p))[:4],
                          cfg=cfg)
        check_clone(spec, est, ctx, K, cfg, fresh)
        nested = any("__" in k for k in p)
        try:
            wit = spec.make(vi)
            w0 = freeze_params(wit)
        except Exception:
            wit = None
        # every advertised key, one at a time, on a fresh instance each
        for key in sorted(p):
            e2 = spec.make(vi)
            before = safe_get(e2, ctx, K, cfg)
            if before is None or key not in before:
                continue
            val, ok = alt_value(spec, key, before[key], rng, e2)
            if not ok:
                ctx.excluded("key-without-known-valid-alternative")
                continue
            kk = key_kind(key)
            c2 = dict(cfg, key=key, kind=kk)
            try:
                r = e2.set_params(**{key: val})
            except Exception as e:
                ctx.hit("set_params.key")
                ctx.violation(K + "set_params/advertised-key-refused/%s" % kk,
                              "set_params(%s=...) raised %s: %s" % (key, type(e).__name__, str(e)[:150]), cfg=c2)
                continue
            ctx.hit("set_params.returns_self")
            if r is not e2:
                ctx.violation(K + "set_params/returns-not-self", "set_params returned %r" % type(r).__name__, cfg=c2)
            after = safe_get(e2, ctx, K, c2)
            if after is None:
                continue
            ctx.hit("set_params.key")
            exp = expected_after(before, {key: val}, spec.name, e2)
            d = diff_params(after, exp)
            if d:
                own = [x for x in d if x.startswith(key + "=") or x.startswith(key + " ")]
                what = "key-not-set" if own else "other-keys-changed"
                ctx.violation(K + "set_params/%s/%s" % (what, kk), "after set_params(%s=%s): %s" % (
                    key, _short(val), "; ".join(d[:3])), cfg=c2)
            if is_est(val) and after.get(key) is not val:
                ctx.violation(K + "set_params/object-not-stored/%s" % kk, "the estimator given for %r is not the one "
                              "reported afterwards" % key, cfg=c2)
            if isinstance(val, list) and val and all(is_est(v) for v in val):
                got_l = after.get(key)
                if not isinstance(got_l, (list, tuple)) or len(got_l) != len(val) or not all(
                        a is b or (hasattr(a, "model") and a.model is b) for a, b in zip(got_l, val)):
                    ctx.violation(K + "set_params/object-not-stored/list", "the estimators of the list given for %r are "
                                  "not the ones reported afterwards (a list equal by hyper-parameters was taken for "
                                  "unchanged?)" % key, cfg=c2)
            if kk != "top":
                ctx.nontriv(spec.name, vi, key)
            ctx.cls("key=" + kk)
            # the reported parameters rebuild an object that behaves like this one (estimator-valued and
            # option keys only: one fit per key is affordable there)
            if (is_est(val) or isinstance(val, str)) and not spec.abstract and spec.kind != "ts" and not d \
                    and not any(k.split("__")[-1] == "n_jobs" and v not in (None, 1) for k, v in after.items()):
                from sklearn.base import clone
                try:
                    rebuilt = clone(e2)
                    D = spec.data(numpy.random.RandomState(7))
                    Q = spec.query(numpy.random.RandomState(8), D)
                    numpy.random.seed(11)
                    spec.fit(rebuilt, D)
                    o_ref = spec.outputs(rebuilt, Q)
                except Exception:
                    ctx.excluded("rebuild-clause: the rebuilt object cannot be fitted with this value")
                    continue
                try:
                    D = spec.data(numpy.random.RandomState(7))   # fresh arrays: copy_X=False models may overwrite
                    Q = spec.query(numpy.random.RandomState(8), D)
                    numpy.random.seed(11)
                    spec.fit(e2, D)
                    o_got = spec.outputs(e2, Q)
                except Exception as e:
                    ctx.hit("rebuild.behaviour")
                    ctx.violation(K + "rebuild/behaviour-differs/%s" % kk,
                                  "after set_params(%s=...) the object raises %s where the object rebuilt from its "
                                  "reported parameters works" % (key, type(e).__name__), cfg=c2)
                    continue
                ctx.hit("rebuild.behaviour")
                for m in o_ref:
                    if m not in o_got or not same_out(o_ref[m], o_got[m]):
                        ctx.violation(K + "rebuild/behaviour-differs/%s" % kk,
                                      "after set_params(%s=...) %s differs from the object rebuilt from the reported "
                                      "parameters" % (key, m), cfg=c2)
                        break
        # a component replaced and, in the same call, a nested key the new component does not have: the call is refused,
        # possibly half applied (scikit-learn's own order) - the object still behaves like what it reports
        if not spec.abstract and spec.kind != "ts" and spec.methods and spec.name != "TransferTransformer":
            from sklearn.base import clone
            for kc in [k for k in sorted(p) if "__" not in k and is_est(p[k]) and any(x.startswith(k + "__") for x in p)]:
                e6 = spec.make(vi)
                c6 = dict(cfg, key=kc, call="set_params(%s=<other>, %s__zz_no_such_param=1)" % (kc, kc))
                try:
                    v6, ok6 = alt_value(spec, kc, e6.get_params(deep=False).get(kc), rng, e6)
                    if not ok6 or not is_est(v6):
                        continue
                    try:
                        e6.set_params(**{kc: v6, kc + "__zz_no_such_param": 1})
                        continue
                    except Exception:
                        pass
                    rebuilt = clone(e6)
                    D = spec.data(numpy.random.RandomState(7))
                    Q = spec.query(numpy.random.RandomState(8), D)
                    numpy.random.seed(11)
                    spec.fit(rebuilt, D)
                    o_ref = spec.outputs(rebuilt, Q)
                except Exception:
                    ctx.excluded("half-applied refusal: the rebuilt object cannot be fitted")
                    continue
                ctx.hit("refused_component.behaviour")
                try:
                    D = spec.data(numpy.random.RandomState(7))
                    Q = spec.query(numpy.random.RandomState(8), D)
                    numpy.random.seed(11)
                    spec.fit(e6, D)
                    o_got = spec.outputs(e6, Q)
                    badm = [m for m in o_ref if m not in o_got or not same_out(o_ref[m], o_got[m])]
                    if badm:
                        ctx.violation(K + "refused-call/behaviour-differs-from-reported-parameters", "after the refused %s the "
                                      "object answers %s differently from the object rebuilt from what it reports" % (
                                          c6["call"], badm[0]), cfg=c6)
                except Exception as e:
                    ctx.violation(K + "refused-call/behaviour-differs-from-reported-parameters/raised/%s" % type(e).__name__,
                                  "after the refused %s the object raises where the object rebuilt from what it reports "
                                  "works: %s" % (c6["call"], str(e)[:120]), cfg=c6)
        # prefixed naming (c_<name> / e_<name>): names both sub-estimators own, both prefixed versions in ONE call
        if spec.name in PREFIX:
            pre = sorted(PREFIX[spec.name].values())
            shared = sorted({k[len(pre[0]):] for k in p if k.startswith(pre[0])} &
                            {k[len(pre[1]):] for k in p if k.startswith(pre[1])})
            for nm_ in shared:
                e5 = spec.make(vi)
                b5 = safe_get(e5, ctx, K, cfg)
                if b5 is None:
                    continue
                upd5 = {}
                for pf in pre:
                    v5, ok5 = alt_value(spec, pf + nm_, b5[pf + nm_], rng, e5)
                    if ok5:
                        upd5[pf + nm_] = v5
                if len(upd5) < 2:
                    continue
                for order in (sorted(upd5), sorted(upd5, reverse=True)):
                    e5 = spec.make(vi)
                    b5 = safe_get(e5, ctx, K, cfg)
                    if b5 is None:
                        break
                    try:
                        e5.set_params(**{k_: upd5[k_] for k_ in order})
                    except Exception:
                        ctx.excluded("both prefixed keys: the pair of values is refused")
                        continue
                    a5 = safe_get(e5, ctx, K, cfg)
                    ctx.hit("set_params.both_prefixes")
                    d5 = diff_params(a5, expected_after(b5, upd5, spec.name, e5)) if a5 is not None else []
                    if d5:
                        ctx.violation(K + "set_params/key-not-set/prefixed", "set_params(%s) with both prefixed versions "
                                      "of %r: %s" % (", ".join(order), nm_, "; ".join(d5[:3])), cfg=dict(cfg, keys=order))
                        break
        # other objects with the SAME hyper-parameters (clones): set_params stores the objects it is given, it does not
        # decide by == that "nothing changed"
        from sklearn.base import clone as _clone
        for key in sorted(p):
            cur = p[key]
            try:
                if is_est(cur) and not isinstance(cur, type):
                    twin, same = _clone(cur), (lambda got, tw: got is tw)
                elif isinstance(cur, list) and cur and all(is_est(v) for v in cur):
                    twin = [_clone(v) for v in cur]
                    same = (lambda got, tw: isinstance(got, (list, tuple)) and len(got) == len(tw) and all(
                        a is b or getattr(a, "model", None) is b for a, b in zip(got, tw)))
                else:
                    continue
                e4 = spec.make(vi)
                e4.set_params(**{key: twin})
                got4 = e4.get_params(deep=True).get(key)
            except Exception:
                ctx.excluded("twin objects: clone / set_params refused")
                continue
            ctx.hit("set_params.twin_objects")
            if not same(got4, twin):
                ctx.violation(K + "set_params/object-not-stored/equal-hyper-parameters", "set_params(%s=<other objects "
                              "with the same hyper-parameters>) keeps the previous objects: the key was given and not "
                              "changed" % key, cfg=dict(cfg, key=key))
        # two calls in a row on one instance: a first key, then a second one - each changes exactly its key
        tops = [k for k in sorted(p) if "__" not in k]
        pairs = [(a, b) for a in tops for b in tops if a != b]
        if len(pairs) > 40:
            pairs = [pairs[i] for i in sorted(rng.choice(len(pairs), 40, replace=False))]
        for k1, k2 in pairs:
            e3 = spec.make(vi)
            b0 = safe_get(e3, ctx, K, cfg)
            if b0 is None or k1 not in b0 or k2 not in b0:
                continue
            v1, ok1 = alt_value(spec, k1, b0[k1], rng, e3)
            if not ok1:
                continue
            c3 = dict(cfg, first=k1, second=k2)
            try:
                e3.set_params(**{k1: v1})
                b1 = safe_get(e3, ctx, K, c3)
                if b1 is None or k2 not in b1:
                    continue
                v2, ok2 = alt_value(spec, k2, b1[k2], rng, e3)
                if not ok2:
                    continue
                e3.set_params(**{k2: v2})
            except Exception:
                ctx.excluded("two-step: a combination of two alternative values is refused")
                continue
            a2 = safe_get(e3, ctx, K, c3)
            if a2 is None:
                continue
            ctx.hit("set_params.two_steps")
            d2 = diff_params(a2, expected_after(b1, {k2: v2}, spec.name, e3))
            if d2:
                ctx.violation(K + "set_params/second-call-differs/%s" % key_kind(k2), "after set_params(%s=...) then "
                              "set_params(%s=%s): %s" % (k1, k2, _short(v2), "; ".join(d2[:3])), cfg=c3)
            elif is_est(v2) and a2.get(k2) is not v2:
                ctx.violation(K + "set_params/object-not-stored/second-call", "after set_params(%s=...), the estimator "
                              "given for %r is not the one reported" % (k1, k2), cfg=c3)
        # round trip between two differently configured instances
        for vj in range(len(spec.variants)):
            if vj == vi:
                continue
            A, B = spec.make(vi), spec.make(vj)
            pA = safe_get(A, ctx, K, cfg)
            if pA is None:
                continue
            c2 = dict(cfg, other_variant=vj)
            pB0 = safe_get(B, ctx, K, cfg)
            if pB0 is not None and {k for k in pB0 if "__" not in k} != {k for k in pA if "__" not in k}:
                # free-form keyword stores (SkBase family): two instances may not even have the same top-level
                # keys; "set exactly the given keys" and "report A's parameters" cannot both hold then
                ctx.hit("roundtrip.key_sets_differ")
                try:
                    B.set_params(**pA)
                    left = sorted(set(safe_get(B, ctx, K, cfg) or {}) - set(pA))
                except Exception as e:
                    left = [type(e).__name__]
                if left:
                    fam = "kwargs-store" if hasattr(A, "P") else spec.name
                    ctx.violation("C01/roundtrip/key-sets-differ/%s" % fam, spec.name + ": A and B do not advertise the same top-level keys "
                                  "(%r vs %r): after B.set_params(**A.get_params(deep=True)) B still differs: %r" % (
                                      sorted(k for k in pA if "__" not in k)[:6],
                                      sorted(k for k in pB0 if "__" not in k)[:6], left[:4]), cfg=c2)
                continue
            try:
                r = B.set_params(**pA)
            except Exception as e:
                ctx.hit("roundtrip.params")
                ctx.violation(K + "roundtrip/set_params-raised/%s" % type(e).__name__,
                              "B.set_params(**A.get_params(deep=True)) raised: %s" % str(e)[:200], cfg=c2)
                continue
            ctx.hit("roundtrip.params")
            if r is not B:
                ctx.violation(K + "set_params/returns-not-self", "set_params returned %r" % type(r).__name__, cfg=c2)
            pB = safe_get(B, ctx, K, c2)
            if pB is None:
                continue
            d = diff_params(pB, pA)
            if d:
                ctx.violation(K + "roundtrip/parameters-differ", "after B.set_params(**A.get_params(deep=True)): %s" % (
                    "; ".join(d[:3])), cfg=c2)
                continue
            if nested:
                ctx.nontriv(spec.name, "roundtrip", vi, vj)
            # behaviour: both fitted on the same data give the same outputs
            if spec.abstract or spec.kind == "ts":
                continue
            if any(k.split("__")[-1] == "n_jobs" and v not in (None, 1) for k, v in pA.items()):
                # thread-parallel fits draw from the global generator in schedule order: determinism under
                # threads is C03/C08's subject, not the parameter protocol's
                ctx.excluded("behaviour clause with n_jobs > 1")
                continue
            try:
                from sklearn.base import clone
                D = spec.data(numpy.random.RandomState(7))
                # (a deep copy, not clone: a parameter may be an already trained estimator - TransferTransformer -
                # whose learnt state a warm-start learner goes on from; clone would drop it on one side only)
                import copy as _copy
                try:
                    A2 = _copy.deepcopy(A)
                except Exception:
                    A2 = clone(A)
                numpy.random.seed(11)
                spec.fit(A2, D)
                Q = spec.query(numpy.random.RandomState(8), D)
                oa = spec.outputs(A2, Q)
                D = spec.data(numpy.random.RandomState(7))
                Q = spec.query(numpy.random.RandomState(8), D)
                numpy.random.seed(11)
                spec.fit(B, D)
                ob = spec.outputs(B, Q)
            except Exception as e:
                ctx.excluded("behaviour-clause-fit-failed:%s" % type(e).__name__)
                continue
            ctx.hit("roundtrip.behaviour")
            for m in oa:
                if m not in ob or not same_out(oa[m], ob[m]):
                    ctx.violation(K + "roundtrip/behaviour-differs", "%s differs between A and B although B reports "
                                  "A's parameters" % m, cfg=c2)
                    break
        if wit is not None:
            check_witness(wit, w0, ctx, K, cfg)
    ctx.sample({"class": spec.name, "variants": len(spec.variants)})


def same_out(a, b):
    a, b = numpy.asarray(a), numpy.asarray(b)
    if a.shape != b.shape:
        return False
    if a.dtype == object or b.dtype == object:
        return all((x is None and y is None) or (x != x and y != y) or x == y
                   for x, y in zip(a.ravel().tolist(), b.ravel().tolist()))
    if a.dtype.kind in "fc":
        return bool(numpy.allclose(a, b, rtol=1e-9, atol=1e-12, equal_nan=True))
    return bool(numpy.array_equal(a, b))


def run_history(case, ctx):
    from vrt import registry
    spec = registry.get(case["cls"])
    rng = numpy.random.RandomState(case["sub"] % (2 ** 31))
    K = "C01/%s/" % spec.name
    vi = int(rng.randint(len(spec.variants)))
    cfg = {"class": spec.name, "variant": vi, "history": []}
    try:
        est = spec.make(vi)
    except Exception:
        return
    fresh = set(fitted_attrs(est))
    shadow = safe_get(est, ctx, K, cfg)
    if shadow is None:
        return
    try:
        wit = spec.make(vi)
        w0 = freeze_params(wit)
    except Exception:
        wit = None
    nset = 0
    rngb = numpy.random.RandomState((case["sub"] * 31 + 5) % (2 ** 31))
    for step in range(int(rng.randint(4, 13))):
        op = ["set1", "set1", "setN", "clone", "get", "setfrom"][rng.randint(6)]
        if rngb.rand() < 0.15:
            op = "setbad"
        cfg["history"].append(op)
        if op == "setbad":
            # a call that must be refused: the object stays usable and the keys that were not given keep their values
            kind = rngb.randint(5)
            nest = sorted({k.rsplit("__", 1)[0] for k in shadow if "__" in k})
            comps = [k for k in sorted(shadow) if "__" not in k and is_est(shadow[k]) and any(
                x.startswith(k + "__") for x in shadow)]
            if kind == 0:
                upd = {"zz_no_such_param": 1}
            elif kind == 1:
                upd = {"gamma_": 7}
            elif kind == 2 and nest:
                upd = {nest[rngb.randint(len(nest))] + "__zz_no_such_param": 1}
            elif kind == 4 and comps:
                # a component replaced and, in the same call, a nested key the new component does not have
                kc = comps[rngb.randint(len(comps))]
                vc, okc = alt_value(spec, kc, shadow[kc], rngb, est)
                upd = {kc + "__zz_no_such_param": 1}
                if okc and is_est(vc):
                    upd[kc] = vc
            else:
                upd = {"zz_no_such_param": 1}
                plain = [k for k in sorted(shadow) if "__" not in k and not is_est(shadow[k])
                         and not isinstance(shadow[k], (list, tuple))]
                if plain:
                    k = plain[rngb.randint(len(plain))]
                    v, ok = alt_value(spec, k, shadow[k], rngb, est)
                    if ok and not is_est(v):
                        upd[k] = v
            cfg["history"][-1] = "setbad(%s)" % ",".join(sorted(upd))
            try:
                est.set_params(**upd)
                raised = None
            except Exception as e:
                raised = e
            ctx.hit("history.refused_call" if raised is not None else "history.unknown_key_accepted")
            after = safe_get(est, ctx, K + "after-refused-set_params/", cfg)
            if after is None:
                return
            if raised is not None:
                given = set(upd)
                moved = [k for k in shadow if k not in given and not any(k.startswith(g + "__") for g in given)
                         and (k not in after or not eq(after[k], shadow[k]))]
                # (a component that was given is applied before its nested keys are looked at - scikit-learn's order -
                # so the nested keys of the new component may appear although the call ends with an error)
                extra = [k for k in after if k not in shadow and k not in given
                         and not any(k.startswith(g + "__") for g in given)]
                if moved or extra:
                    ctx.violation(K + "set_params/refused-call-changed-other-keys",
                                  "set_params(%s) raised %s and changed keys it was not given: %s" % (
                                      ",".join(sorted(upd)), type(raised).__name__, (moved + extra)[:4]), cfg=cfg)
                check_clone(spec, est, ctx, K + "after-refused-set_params/", cfg, fresh)
            shadow = after
            continue
        if op == "get":
            got = safe_get(est, ctx, K, cfg, deep=bool(rng.randint(2)))
            continue
        if op == "clone":
            c = check_clone(spec, est, ctx, K, cfg, fresh)
            if c is not None and rng.rand() < 0.5:
                est = c
                shadow = safe_get(est, ctx, K, cfg) or shadow
            continue
        if op == "setfrom":
            other = spec.make(int(rng.randint(len(spec.variants))))
            upd = safe_get(other, ctx, K, cfg)
            if upd is None:
                continue
            if not {k for k in upd if "__" not in k} <= {k for k in shadow if "__" not in k}:
                ctx.excluded("setfrom: the other instance advertises keys this one does not (kwargs store)")
                continue
        else:
            keys = sorted(shadow)
            if not keys:
                continue
            pick = [keys[rng.randint(len(keys))]] if op == "set1" else [
                keys[i] for i in sorted(set(rng.randint(len(keys), size=3).tolist()))]
            upd = {}
            pmap_ = PREFIX.get(spec.name, {})

            def _owner(key):
                # the component a prefixed key (c_verbose -> clus) belongs to, or None
                for comp, pre in pmap_.items():
                    if key.startswith(pre):
                        return comp
                return None

            for k in pick:
                # do not combine a container with its own nested keys in one call (the keys advertised for the current
                # component need not exist on the one that replaces it)
                if any(k.startswith(o + "__") or o.startswith(k + "__") or
                       (k.split("_")[0] == o and o != k) or (o.split("_")[0] == k and o != k) or
                       _owner(k) == o or _owner(o) == k for o in upd):
                    continue
                v, ok = alt_value(spec, k, shadow[k], rng, est)
                if ok:
                    upd[k] = v
            if not upd:
                continue
        cfg["history"][-1] = "%s(%s)" % (op, ",".join(sorted(upd))[:80])
        try:
            r = est.set_params(**upd)
        except Exception as e:
            ctx.hit("history.steps")
            kinds = sorted({key_kind(k) for k in upd})
            ctx.violation(K + "set_params/advertised-key-refused/%s" % kinds[-1],
                          "history %r: set_params raised %s: %s" % (cfg["history"][-3:], type(e).__name__,
                                                                    str(e)[:150]), cfg=cfg)
            shadow = safe_get(est, ctx, K, cfg) or shadow
            continue
        nset += 1
        ctx.hit("history.steps")
        if r is not est:
            ctx.violation(K + "set_params/returns-not-self", "set_params returned %r" % type(r).__name__, cfg=cfg)
        got = safe_get(est, ctx, K, cfg)
        if got is None:
            return
        exp = expected_after(shadow, upd, spec.name, est)
        d = diff_params(got, exp)
        if d:
            kinds = sorted({key_kind(k) for k in upd})
            ctx.violation(K + "history/shadow-store-differs/%s" % kinds[-1],
                          "after %r the reported parameters differ from the contract: %s" % (
                              cfg["history"][-3:], "; ".join(d[:3])), cfg=cfg)
        # ... and the values of the keys that were NOT given are the very objects they were: the caller's estimator, list
        # or array is still the one the object holds (a later change through the caller's reference is seen).  Judged
        # for keys whose value get_params hands out by identity (two calls in a row give the same object)
        if op != "setfrom":
            again = safe_get(est, ctx, K, cfg, deep=False) or {}
            for k, v0 in shadow.items():
                if "__" in k or k in upd or k not in got or k not in again or got[k] is not again[k]:
                    continue
                if any(_owner(k) == g or _owner(g) == k for g in upd):
                    continue
                if not (is_est(v0) or isinstance(v0, (list, dict, numpy.ndarray))):
                    continue
                ctx.hit("history.untouched_values_identical")
                if got[k] is not v0:
                    ctx.violation(K + "history/untouched-value-replaced",
                                  "after %r the value of %r, a key that was not given, is another object (%s) than before "
                                  "the call" % (cfg["history"][-1], k, "an equal copy" if eq(got[k], v0) else "different"),
                                  cfg=cfg)
                    break
        shadow = got
    # ---- at the end of the history the object still BEHAVES like what its reported parameters rebuild (whatever
    # calls were refused on the way): both fitted on the same data give the same outputs
    if not spec.abstract and spec.kind != "ts" and spec.methods and spec.name != "TransferTransformer":
        # (TransferTransformer carries a TRAINED estimator as a parameter: clone drops what it learnt, which a warm-start
        # learner would go on from - no rebuilt twin exists for it)
        pe = safe_get(est, ctx, K, cfg) or {}
        if pe.get("balanced_predictions") and spec.name == "ConstraintKMeans":
            # transform / score of a balanced 'gain' model index with uninitialised labels (DESIGN section 7, outside
            # the properties): not a matter of the parameter protocol
            ctx.excluded("history end: ConstraintKMeans with balanced predictions")
        elif not any(k.split("__")[-1] == "n_jobs" and v not in (None, 1) for k, v in pe.items()):
            from sklearn.base import clone
            try:
                rebuilt = clone(est)
                D = spec.data(numpy.random.RandomState(7))
                Q = spec.query(numpy.random.RandomState(8), D)
                numpy.random.seed(11)
                spec.fit(rebuilt, D)
                o_ref = spec.outputs(rebuilt, Q)
            except Exception:
                o_ref = None
                ctx.excluded("history end: the object rebuilt from the reported parameters cannot be fitted")
            if o_ref is not None:
                try:
                    D = spec.data(numpy.random.RandomState(7))
                    Q = spec.query(numpy.random.RandomState(8), D)
                    numpy.random.seed(11)
                    spec.fit(est, D)
                    o_got = spec.outputs(est, Q)
                    ctx.hit("history.end_behaviour")
                    badm = [m for m in o_ref if m not in o_got or not same_out(o_ref[m], o_got[m])]
                    if badm:
                        ctx.violation(K + "history/behaviour-differs-from-rebuilt", "after %r the object, once fitted, "
                                      "answers %s differently from the object rebuilt from its reported parameters" % (
                                          cfg["history"][-4:], badm[0]), cfg=cfg)
                except Exception as e:
                    ctx.hit("history.end_behaviour")
                    ctx.violation(K + "history/behaviour-differs-from-rebuilt/raised/%s" % type(e).__name__,
                                  "after %r the object raises where the object rebuilt from its reported parameters "
                                  "works: %s" % (cfg["history"][-4:], str(e)[:120]), cfg=cfg)
    if wit is not None:
        check_witness(wit, w0, ctx, K, cfg)
    if nset >= 2:
        ctx.nontriv(spec.name, "history", case["sub"])
    ctx.cls("class=" + spec.name)


def run_case(case, ctx):
    {"keys": run_keys, "history": run_history}[case["gen"]](case, ctx)


def evaluations(counters, ncases):
    return int(counters.get("set_params.key", 0) + counters.get("history.steps", 0) + counters.get("clone", 0)
               + counters.get("roundtrip.params", 0))
