"""C17 - IntervalRegressor bootstraps over the whole training set, aggregates exactly.

Tagged data make the history unambiguous: X[:, 0] is a unique row id, y = 3*id + 1, w = 0.5 + id/7, so a
recording base regressor can say exactly which rows, with which target and weight, reached each of the
n_estimators models.
"""
import math

import numpy

PROPERTY = "C17"
LEVEL = "exploration"
NEED_EXT = True
REQUIRED = ["fit.members_keep_their_rows", "predict.after_refit_same_batch_object", "fit.sample_size", "fit.alignment", "fit.eligibility", "predict.mean", "predict.sorted",
            "predict.all_vs_members", "predict.after_set_params", "predict.after_refused_refit", "fit.with_replacement"]
RULE = ("n in {1,2,3,5,8,10,20,50} x alpha in {0.3,0.5,1,1.5} x n_estimators x weights x n_jobs x base regressor; "
        "eligibility judged only when the union bound n*(1-1/n)^draws < 1e-9; non-trivial = n >= 3 and "
        "n_estimators >= 2; distinct = distinct configuration")
ASSUMPTIONS = ["round(alpha*n): floor(alpha*n+0.5) and Python's round are both accepted at exact .5",
               "eligibility is a one-sided statistical clause with false-alarm probability < 1e-9 per case",
               "base regressors accept fit(X, y, sample_weight) positionally (the library passes it so)"]


def gid(i):
    return 3.0 * i + 1.0


def hid(i):
    return 0.5 + i / 7.0


def cases(tier, seed):
    out = []
    ns = [1, 2, 3, 5, 8, 10, 20, 50]
    alphas = [0.3, 0.5, 1.0, 1.5]
    k = 0
    for n in ns:
        for a in alphas:
            for weighted in (False, True):
                for base in ("linear", "tree", "dummy"):
                    if tier == "quick" and (k % 2) == 1 and n not in (1, 2):
                        k += 1
                        continue
                    out.append({"gen": "ir", "id": "ir-n%d-a%s-w%d-%s" % (n, a, weighted, base), "n": n, "alpha": a,
                                "weighted": weighted, "base": base, "n_jobs": [None, 4][k % 2],
                                "sub": seed * 10007 + k, "tier": tier})
                    k += 1
    return out


def make_rec():
    from sklearn.base import BaseEstimator, RegressorMixin
    from sklearn.linear_model import LinearRegression
    from sklearn.tree import DecisionTreeRegressor
    from sklearn.dummy import DummyRegressor

    class Rec(BaseEstimator, RegressorMixin):
        def __init__(self, base="linear"):
            self.base = base

        def fit(self, X, y, sample_weight=None):
            Xd = X.toarray() if hasattr(X, "toarray") else X
            self.ids_ = numpy.array(numpy.asarray(Xd)[:, 0], copy=True)
            self.X_ref_ = X          # a base regressor may keep its training features (k-NN, kernel methods)
            self.X_copy_ = numpy.array(Xd, copy=True)
            self.y_ = numpy.array(y, copy=True)
            self.w_ = None if sample_weight is None else numpy.array(sample_weight, copy=True)
            inner = {"linear": LinearRegression, "tree": lambda: DecisionTreeRegressor(max_depth=3, random_state=0),
                     "dummy": DummyRegressor}[self.base]()
            self.inner_ = inner.fit(X, y, sample_weight=sample_weight)
            return self

        def predict(self, X):
            return self.inner_.predict(X)

    return Rec


def run_case(case, ctx):
    from mlinsights.mlmodel import IntervalRegressor
    Rec = make_rec()
    n, alpha, weighted = case["n"], case["alpha"], case["weighted"]
    rng = numpy.random.RandomState(case["sub"] % (2 ** 31))
    ids = rng.permutation(1000)[:n].astype(float)
    X = numpy.column_stack([ids, rng.randn(n), rng.randn(n)])
    y = gid(ids)
    w = hid(ids) if weighted else None
    zero_w = bool(weighted and n >= 8 and (case["sub"] // 2) % 2 == 0)
    if zero_w:
        # rows with weight exactly 0 are still rows of the training set: eligible, and counted in round(alpha*n)
        w = w.copy()
        zidx = rng.choice(n, max(1, n // 6), replace=False)
        w[zidx] = 0.0
        ctx.cls("zero-weights")
    size_a = int(math.floor(n * alpha + 0.5))
    sizes_ok = {size_a, int(round(n * alpha))}
    # number of models so that every row is drawn with probability > 1 - 1e-9
    per_fit = max(size_a, 1)
    need = int(math.ceil((math.log(1e9) + math.log(max(n, 2))) / -math.log(1 - 1.0 / n))) if n > 1 else 1
    m = int(min(max(2, math.ceil(need / per_fit) + 1), 400))
    if 2 <= n <= 5:
        m = max(m, 40)          # tiny training sets: enough members for the tail tests on the draws to have power
    cfg = {"n": n, "alpha": alpha, "weighted": weighted, "zero_weights": zero_w, "base": case["base"],
           "n_jobs": case["n_jobs"], "n_estimators": m}
    K = "C17/"
    if size_a == 0:
        # round(alpha*n) = 0: each member is to be trained on NO row.  A regressor that accepts an empty sample shows what
        # the members are given (ordinary regressors refuse it, the fit is then refused as a whole)
        from sklearn.base import BaseEstimator as _BE0, RegressorMixin as _RM0

        class AcceptsEmpty(_RM0, _BE0):
            def fit(self, X, y, sample_weight=None):
                self.n_rows_ = int(numpy.asarray(y).shape[0])
                return self

            def predict(self, X):
                return numpy.zeros(len(X))
        try:
            ir0 = IntervalRegressor(estimator=AcceptsEmpty(), n_estimators=3, alpha=alpha)
            numpy.random.seed(1)
            ir0.fit(X, y)
            got0 = [getattr(e_, "n_rows_", None) for e_ in ir0.estimators_]
            ctx.hit("fit.sample_size.zero")
            if any(g_ not in (0, None) for g_ in got0):
                ctx.violation(K + "fit/sample-size/zero", "round(alpha*n)=0 (n=%d, alpha=%g): the members were trained on %r "
                              "rows" % (n, alpha, got0), cfg=cfg)
        except Exception:
            ctx.excluded("round(alpha*n)=0: the fit is refused")
        return
    Xk, yk = X.copy(), y.copy()
    # containers: targets / weights as pandas Series whose index is a permutation of the positions, X as a frame
    import pandas
    cont = ["ndarray", "ndarray", "series-shuffled-index", "ndarray", "frame+series", "csr-matrix"][(case["sub"] // 5) % 6]
    cfg["container"] = cont
    ctx.cls("container=" + cont)
    Xin, yin, win = X, y, w
    if cont not in ("ndarray", "csr-matrix"):
        ix = numpy.random.RandomState(case["sub"] % 1000 + 5).permutation(n)
        yin = pandas.Series(y, index=ix)
        win = None if w is None else pandas.Series(w, index=ix)
        if cont == "frame+series":
            Xin = pandas.DataFrame(X, columns=["id", "a", "b"], index=ix)
    if cont == "csr-matrix":
        import scipy.sparse
        Xin, yin, win = scipy.sparse.csr_matrix(X), y, w
    from vrt import layouts
    lay = layouts.pick(case["sub"], 6)
    via = (case["sub"] // 3) % 4 == 0
    cfg["layout"], cfg["configured_with"] = lay, "set_params" if via else "constructor"
    ctx.cls("layout=" + lay)
    if cont == "ndarray":
        Xin, yin, win = layouts.relayout(X, lay), layouts.relayout(y, lay), layouts.relayout(w, lay)
    numpy.random.seed(case["sub"] % (2 ** 31))
    ir = layouts.build(IntervalRegressor, dict(estimator=Rec(base=case["base"]), n_estimators=m, alpha=alpha,
                                               n_jobs=case["n_jobs"]), via, as_numpy_scalars=(case["sub"] // 7) % 3 == 0, decoys=
                       dict(estimator=Rec(base="dummy"), n_estimators=m + 3, alpha=alpha * 0.5 + 0.1, n_jobs=2))
    try:
        r = ir.fit(Xin, yin) if w is None else ir.fit(Xin, yin, sample_weight=win)
    except Exception as e:
        ctx.hit("fit.sample_size")
        if zero_w and "non-zero" in str(e):
            ctx.excluded("a resample made only of zero-weight rows (refused by the base regressor)")
            return
        ctx.violation(K + "fit/raised/%s" % type(e).__name__, "fit raised on valid data (n=%d): %s: %s" % (
            n, type(e).__name__, e), cfg=cfg)
        return
    ctx.check(r is ir, K + "fit/returns-not-self", "fit did not return the estimator", cfg=cfg)
    ests = ir.estimators_
    ctx.check(len(ests) == m and ir.n_estimators_ == m, K + "fit/number-of-models",
              "%d models for n_estimators=%d" % (len(ests), m), cfg=cfg)
    ctx.check(len({id(e) for e in ests}) == len(ests), K + "fit/models-shared", "a model object appears twice",
              cfg=cfg)
    drawn = set()
    total = 0
    idset = set(ids.tolist())
    for e in ests:
        if not hasattr(e, "ids_"):
            ctx.violation(K + "fit/model-not-fitted", "a member was not fitted through the recording estimator",
                          cfg=cfg)
            continue
        ctx.hit("fit.sample_size")
        if len(e.ids_) not in sizes_ok:
            ctx.violation(K + "fit/sample-size", "a model was trained on %d rows, round(alpha*n)=%d" % (
                len(e.ids_), size_a), cfg=cfg)
        ctx.hit("fit.alignment")
        if not set(e.ids_.tolist()) <= idset:
            ctx.violation(K + "fit/foreign-row", "a model received a row that is not a training row", cfg=cfg)
        if not numpy.array_equal(e.y_, gid(e.ids_)):
            ctx.violation(K + "fit/target-misaligned", "target of a drawn row does not belong to it", cfg=cfg,
                          ids=e.ids_[:4], y=e.y_[:4])
        if weighted:
            wexp = hid(e.ids_)
            if zero_w:
                wexp = numpy.array([w[int(numpy.where(ids == v)[0][0])] for v in e.ids_])
            if e.w_ is None or not numpy.allclose(e.w_, wexp, rtol=0, atol=0):
                ctx.violation(K + "fit/weight-misaligned", "weight of a drawn row does not belong to it", cfg=cfg)
        elif e.w_ is not None:
            ctx.violation(K + "fit/weight-invented", "weights passed although none were given", cfg=cfg)
        drawn.update(e.ids_.tolist())
        total += len(e.ids_)
    # drawn WITH replacement: under independent uniform draws a member of s rows is free of repeated rows with
    # probability prod(1 - i/n), and holds every one of the n rows with the coupon-collector probability; when all m
    # members show one of these patterns although that has probability below 1e-9, the rows were not drawn that way
    sizes = [len(e.ids_) for e in ests if hasattr(e, "ids_")]
    if n > 1 and sizes and len(set(sizes)) == 1 and len(sizes) == len(ests):
        s_ = sizes[0]
        p_nodup = float(numpy.prod([1.0 - i / n for i in range(s_)])) if s_ <= n else 0.0
        p_all = float(sum((-1) ** j * math.comb(n, j) * (1.0 - j / n) ** s_ for j in range(n + 1))) if s_ >= n else 0.0
        p_all = min(max(p_all, 0.0), 1.0)
        ctx.hit("fit.with_replacement")
        if s_ >= 2 and p_nodup ** len(ests) < 1e-9 and all(len(set(e.ids_.tolist())) == len(e.ids_) for e in ests):
            ctx.violation(K + "fit/drawn-without-replacement", "none of the %d members of %d rows (n=%d) holds a row "
                          "twice (probability %.1e under draws with replacement)" % (
                              len(ests), s_, n, p_nodup ** len(ests)), cfg=cfg)
        if s_ >= n and p_all ** len(ests) < 1e-9 and all(set(e.ids_.tolist()) == idset for e in ests):
            ctx.violation(K + "fit/every-member-holds-every-row", "each of the %d members of %d rows holds all %d "
                          "training rows (probability %.1e under draws with replacement): only the surplus is drawn" % (
                              len(ests), s_, n, p_all ** len(ests)), cfg=cfg)
    if n > 1 and total > 0:
        bound = n * (1 - 1.0 / n) ** total
        if bound < 1e-9:
            ctx.hit("fit.eligibility")
            missing = sorted(idset - drawn)
            if missing:
                pos = sorted(int(numpy.where(ids == v)[0][0]) for v in missing)
                where = "last" if pos == list(range(n - len(pos), n)) else (
                    "first" if pos == list(range(len(pos))) else "some")
                ctx.violation(K + "fit/row-never-drawn/%s-rows" % where,
                              "%d of %d rows were never drawn in %d draws (P < %.1e if all rows were eligible); "
                              "positions %r" % (len(missing), n, total, bound, pos[:8]), cfg=cfg)
        else:
            ctx.excluded("eligibility-bound-too-weak")
    elif n == 1:
        ctx.hit("fit.eligibility")
        ctx.check(drawn == idset or size_a == 0, K + "fit/row-never-drawn/single", "the single row was not drawn",
                  cfg=cfg)
    # what a member was given is still what it holds when fit returns (no buffer shared between members)
    ctx.hit("fit.members_keep_their_rows")
    for j, e in enumerate(ests):
        ref_ = e.X_ref_.toarray() if hasattr(e.X_ref_, "toarray") else numpy.asarray(e.X_ref_)
        if not numpy.array_equal(ref_, e.X_copy_):
            ctx.violation(K + "fit/member-features-overwritten", "the feature array given to member %d was overwritten "
                          "after its fit (a regressor that keeps its training features is left with rows of another "
                          "resample next to its own targets)" % j, cfg=cfg)
            break
        if not hasattr(e.X_ref_, "toarray") and any(
                not hasattr(o.X_ref_, "toarray") and numpy.shares_memory(numpy.asarray(e.X_ref_), numpy.asarray(o.X_ref_))
                for o in ests[:j]):
            ctx.violation(K + "fit/member-features-shared", "two members were given the same feature buffer", cfg=cfg)
            break
    ctx.check(numpy.array_equal(X, Xk) and numpy.array_equal(y, yk), K + "fit/input-modified",
              "training data written to", cfg=cfg)
    if size_a == 0:
        ctx.excluded("empty-resample")
        return
    # ---- aggregation on several query batches
    q = {
        "train": X,
        "float64": numpy.column_stack([rng.uniform(0, 1000, 9), rng.randn(9), rng.randn(9)]),
        "single-row": numpy.array([[500.0, 0.1, -0.2]]),
        "int64": numpy.column_stack([rng.randint(0, 1000, 7), rng.randint(-3, 4, 7), rng.randint(-3, 4, 7)]),
        "float32": numpy.column_stack([rng.uniform(0, 1000, 6), rng.randn(6), rng.randn(6)]).astype(numpy.float32),
    }
    for qname, Q in q.items():
        try:
            allp = ir.predict_all(Q)
            p = ir.predict(Q)
            ps = ir.predict_sorted(Q)
        except Exception as e:
            ctx.violation(K + "predict/raised/%s" % type(e).__name__, "%s: %s" % (type(e).__name__, e), cfg=cfg,
                          batch=qname)
            continue
        ctx.cls("batch=" + qname)
        members = numpy.column_stack([e.predict(Q) for e in ests])
        ctx.hit("predict.all_vs_members")
        if allp.shape != members.shape or not numpy.array_equal(numpy.asarray(allp, dtype=float), members):
            ctx.violation(K + "predict/predict_all-differs", "predict_all is not the members' predictions "
                          "(batch %s, dtype %s)" % (qname, getattr(allp, "dtype", None)), cfg=cfg,
                          got=allp[0, :3], expected=members[0, :3])
        ctx.hit("predict.mean")
        mean = members.mean(axis=1)
        if not numpy.allclose(p, mean, rtol=1e-12, atol=1e-12):
            ctx.violation(K + "predict/not-mean", "predict is not the mean of the individual predictions "
                          "(batch %s)" % qname, cfg=cfg, got=p[:3], expected=mean[:3])
        ctx.hit("predict.sorted")
        exp_sorted = numpy.sort(members, axis=1)
        if ps.shape != exp_sorted.shape or not numpy.array_equal(numpy.asarray(ps, dtype=float), exp_sorted):
            ctx.violation(K + "predict/sorted-differs", "predict_sorted is not the row-wise sorted individual "
                          "predictions (batch %s)" % qname, cfg=cfg)
        else:
            lo, hi = ps[:, 0], ps[:, -1]
            if not ((lo <= p + 1e-9 * (1 + numpy.abs(p))) & (p <= hi + 1e-9 * (1 + numpy.abs(p)))).all():
                ctx.violation(K + "predict/mean-outside-min-max", "min <= predict <= max violated", cfg=cfg)
    # ---- the caller's joblib configuration (a process-based backend with several jobs, set around a whole script): the
    # three prediction methods answer as they do without it
    if case["sub"] % 6 == 0:
        import joblib
        Qj = q["float64"]
        try:
            ref_j = (numpy.asarray(ir.predict_all(Qj), dtype=float), numpy.asarray(ir.predict(Qj), dtype=float),
                     numpy.asarray(ir.predict_sorted(Qj), dtype=float))
            with joblib.parallel_backend("loky", n_jobs=2):
                got_j = (numpy.asarray(ir.predict_all(Qj), dtype=float), numpy.asarray(ir.predict(Qj), dtype=float),
                         numpy.asarray(ir.predict_sorted(Qj), dtype=float))
            ctx.hit("predict.under_process_backend")
            for nm_, a_, b_ in zip(("predict_all", "predict", "predict_sorted"), ref_j, got_j):
                if a_.shape != b_.shape or not numpy.array_equal(a_, b_, equal_nan=True):
                    ctx.violation(K + "predict/depends-on-joblib-backend/%s" % nm_, "%s inside joblib.parallel_backend('loky', "
                                  "n_jobs=2) differs from the same call outside" % nm_, cfg=cfg)
                    break
        except Exception as e:
            ctx.violation(K + "predict/raised-under-process-backend/%s" % type(e).__name__, str(e)[:150], cfg=cfg)
    # ---- history: the same instance fitted again (same number of members) and asked about the SAME array objects,
    # then about one of them refilled in place
    try:
        numpy.random.seed((case["sub"] + 1) % (2 ** 31))
        y_b = y[::-1].copy() if n > 1 else y + 1.0
        # (with zero weights a resample may consist of zero-weight rows only, which the base regressor refuses:
        # the refit of this history is done without weights then)
        ir.fit(X, y_b) if (w is None or zero_w) else ir.fit(X, y_b, sample_weight=w)
        ests2 = ir.estimators_
        for qname in ("float64", "single-row"):
            Q = q[qname]
            members = numpy.column_stack([e.predict(Q) for e in ests2])
            p, ps = ir.predict(Q), ir.predict_sorted(Q)
            ctx.hit("predict.after_refit_same_batch_object")
            if not numpy.allclose(p, members.mean(axis=1), rtol=1e-12, atol=1e-12) or not numpy.array_equal(
                    numpy.asarray(ps, dtype=float), numpy.sort(members, axis=1)):
                ctx.violation(K + "predict/not-mean/after-refit-same-batch-object", "after a refit, predict / "
                              "predict_sorted on the array object used before the refit are not the mean / sorted "
                              "predictions of the current members (batch %s)" % qname, cfg=cfg)
        buf = q["float64"].copy()
        ir.predict(buf)
        buf[:, 0] = buf[::-1, 0] * 0.5 + 3
        members = numpy.column_stack([e.predict(buf) for e in ests2])
        if not numpy.allclose(ir.predict(buf), members.mean(axis=1), rtol=1e-12, atol=1e-12):
            ctx.violation(K + "predict/not-mean/buffer-refilled-in-place", "predict on an array refilled in place is "
                          "not the mean of the members' predictions for its new content", cfg=cfg)
        ests = ests2
    except Exception as e:
        ctx.violation(K + "predict/raised-after-refit/%s" % type(e).__name__, str(e)[:150], cfg=cfg)
        return
    # a hyper-parameter changed after fit does not change what the fitted members predict
    for m2 in (m * 2, max(1, m // 2)):
        ir.set_params(n_estimators=m2)
        Qh = q["float64"]
        try:
            p = ir.predict(Qh)
            ps = ir.predict_sorted(Qh)
        except Exception as e:
            ctx.violation(K + "predict/raised-after-set_params/%s" % type(e).__name__, str(e)[:150], cfg=cfg)
            continue
        ctx.hit("predict.after_set_params")
        members = numpy.column_stack([e.predict(Qh) for e in ests])
        if not numpy.allclose(p, members.mean(axis=1), rtol=1e-12, atol=1e-12):
            ctx.violation(K + "predict/not-mean/after-set_params", "after set_params(n_estimators=%d) on a model "
                          "fitted with %d members, predict is no longer the mean of the members' predictions" % (
                              m2, m), cfg=cfg)
        if not numpy.array_equal(ps, numpy.sort(members, axis=1)):
            ctx.violation(K + "predict/sorted-differs/after-set_params", "predict_sorted changed after set_params",
                          cfg=cfg)
    # another number of members is asked for and that refit is REFUSED by the base regressor (a NaN target); if the
    # object still predicts, its prediction is the mean of what predict_all / predict_sorted say its members predict
    for m2 in (m + 3, max(1, m // 2) if m > 1 else 4):
        ir.set_params(n_estimators=m2)
        y_nan = numpy.array(y, dtype=float, copy=True)
        y_nan[:] = numpy.nan
        try:
            ir.fit(X, y_nan)
            refused = False
        except Exception:
            refused = True
        if not refused:
            ctx.excluded("refused-refit history: the base regressor accepted NaN targets")
            break
        Qh = q["float64"]
        try:
            p = numpy.asarray(ir.predict(Qh), dtype=float)
            allp = numpy.asarray(ir.predict_all(Qh), dtype=float)
            ps = numpy.asarray(ir.predict_sorted(Qh), dtype=float)
        except Exception:
            ctx.hit("predict.after_refused_refit")
            ctx.excluded("after a refused refit the object refuses to predict")
            continue
        ctx.hit("predict.after_refused_refit")
        if allp.ndim != 2 or allp.shape[1] == 0:
            ctx.excluded("after a refused refit the object has no member")
            continue
        if not numpy.allclose(p, allp.mean(axis=1), rtol=1e-12, atol=1e-12, equal_nan=True) or not numpy.array_equal(
                ps, numpy.sort(allp, axis=1), equal_nan=True):
            ctx.violation(K + "predict/not-mean/after-refused-refit", "fit with %d members, set_params(n_estimators=%d), a "
                          "refit the base regressor refuses: predict is not the mean of the %d individual predictions "
                          "predict_all returns (or predict_sorted is not their sorted rows)" % (m, m2, allp.shape[1]),
                          cfg=cfg, got=p[:3], expected=allp.mean(axis=1)[:3])
        elif not ((ps[:, 0] <= p + 1e-9 * (1 + numpy.abs(p))) & (p <= ps[:, -1] + 1e-9 * (1 + numpy.abs(p)))).all():
            ctx.violation(K + "predict/mean-outside-min-max/after-refused-refit", "min <= predict <= max violated after a "
                          "refused refit", cfg=cfg)
    ir.set_params(n_estimators=m)
    # a base regressor that answers NaN outside the range of ids it was trained on (a radius-neighbours model with no
    # neighbour): predict is the mean of ALL individual predictions, so NaN wherever one member says NaN
    if size_a > 0 and n >= 3:
        from sklearn.base import BaseEstimator as _BE2, RegressorMixin as _RM2

        class NanOutside(_RM2, _BE2):
            def fit(self, X, y, sample_weight=None):
                Xd = numpy.asarray(X.toarray() if hasattr(X, "toarray") else X)
                self.lo_, self.hi_ = float(Xd[:, 0].min()), float(Xd[:, 0].max())
                self.mean_ = float(numpy.mean(y))
                return self

            def predict(self, X):
                v = numpy.asarray(X)[:, 0].astype(float)
                return numpy.where((v < self.lo_) | (v > self.hi_), numpy.nan, self.mean_)

        irn = IntervalRegressor(estimator=NanOutside(), n_estimators=6, alpha=min(alpha, 0.5))
        try:
            numpy.random.seed(7)
            irn.fit(X, y)
            Qn = numpy.column_stack([numpy.sort(ids)[:: max(1, n // 6)], numpy.zeros(len(ids[:: max(1, n // 6)])),
                                     numpy.zeros(len(ids[:: max(1, n // 6)]))])
            mem = numpy.column_stack([e.predict(Qn) for e in irn.estimators_])
            pn = numpy.asarray(irn.predict(Qn), dtype=float)
            ctx.hit("predict.nan_answers")
            ctx.extra["rows_with_some_nan"] = int((numpy.isnan(mem).any(axis=1) & ~numpy.isnan(mem).all(axis=1)).sum())
            if not numpy.allclose(pn, mem.mean(axis=1), rtol=1e-12, atol=1e-12, equal_nan=True):
                ctx.violation(K + "predict/not-mean/members-answer-nan", "some members answer NaN for a row: predict is "
                              "%r, the mean of the individual predictions is %r" % (
                                  pn[:4].tolist(), mem.mean(axis=1)[:4].tolist()), cfg=cfg)
        except Exception as e:
            ctx.violation(K + "predict/raised/%s/nan-answers" % type(e).__name__, str(e)[:150], cfg=cfg)
    # a base regressor that cannot take the weights of its rows (no sample_weight argument / refuses them with a
    # TypeError): the weights given to fit are either used or the call is refused - never dropped silently
    if w is not None and size_a > 0:
        from sklearn.base import BaseEstimator as _BE, RegressorMixin as _RM

        class NoWeights(_RM, _BE):
            def fit(self, X, y):
                self.got_ = "no-weights"
                self.mean_ = float(numpy.mean(y))
                return self

            def predict(self, X):
                return numpy.full(len(X), self.mean_)

        class RefusesWeights(NoWeights):
            def fit(self, X, y, sample_weight=None):
                if sample_weight is not None:
                    raise TypeError("this regressor does not support sample_weight")
                return NoWeights.fit(self, X, y)

        for Base in (NoWeights, RefusesWeights):
            irw = IntervalRegressor(estimator=Base(), n_estimators=3, alpha=alpha)
            try:
                numpy.random.seed(3)
                irw.fit(X, y, sample_weight=w)
                refused = False
            except Exception:
                refused = True
            ctx.hit("fit.weights_not_dropped")
            if not refused:
                ctx.violation(K + "fit/weights-silently-dropped", "fit(X, y, sample_weight=w) with a base regressor that "
                              "cannot take weights (%s) succeeded: the members were trained on the drawn rows without "
                              "their weights" % Base.__name__, cfg=cfg)
    if n >= 3 and m >= 2:
        ctx.nontriv(cfg)
    ctx.sample({"cfg": cfg, "draws": total, "distinct_rows_drawn": len(drawn),
                "first_model_ids": ests[0].ids_[:5] if hasattr(ests[0], "ids_") else None})


def evaluations(counters, ncases):
    return int(counters.get("fit.sample_size", 0))
