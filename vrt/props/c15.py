"""C15 - learner-to-transformer wrappers are transparent.

Monitors:
  learner.transparent   SkBaseTransformLearner.transform == wrapped model.<method>(X) reshaped to 2-D
  learner.fit           wrapped model after wrapper.fit == clone(model).fit under the same seeds (state + outputs)
  stacking.hstack       SkBaseTransformStacking.transform == hstack of its members' own outputs
  transfer.output       TransferTransformer.transform == estimator_.<method>(X)
  transfer.frozen       unless trainable, histories of fit/transform never change the wrapped estimator's
                        fitted-state fingerprint or predictions; with copy_estimator the original never changes
"""
import itertools
import pickle

import numpy

PROPERTY = "C15"
LEVEL = "exploration"
NEED_EXT = True
REQUIRED = ["learner.transparent", "learner.fit", "learner.fit_params", "stacking.hstack", "transfer.output", "transfer.frozen",
            "transfer.original_untouched", "transfer.trainable"]
RULE = ("wrapped models (regressors, binary / multiclass classifiers, transformers, k-means, k-NN, PLS) x methods "
        "(predict, predict_proba, decision_function, transform, callable, default) x batches of 1, 2 and n rows x "
        "stacks of 1-4 members x histories fit/transform/fit with trainable x copy_estimator in all combinations; "
        "non-trivial = multi-column method or stack of >= 2 members or history of >= 2 fits; distinct = distinct "
        "(model, method, history)")
ASSUMPTIONS = ["fitted state is fingerprinted through pickle-free structural comparison of __dict__ entries ending "
               "in '_' (arrays by bytes); estimators whose state holds compiled objects without value equality are "
               "compared through their predictions",
               "TransferTransformer(copy_estimator=True) runs the library's own assert_estimator_equal, which "
               "refuses models whose fitted attributes have no value equality (Tree, KDTree): known finding, "
               "keyed by mechanism"]


def cases(tier, seed):
    n = 96 if tier == "quick" else 1000
    return [{"gen": ["learner", "stacking", "transfer"][i % 3], "id": "c15-%d" % i, "sub": seed * 1000003 + i}
            for i in range(n)]


def models():
    from sklearn.linear_model import LinearRegression, LogisticRegression, Ridge
    from sklearn.tree import DecisionTreeClassifier, DecisionTreeRegressor
    from sklearn.neighbors import KNeighborsRegressor, KNeighborsClassifier
    from sklearn.naive_bayes import GaussianNB
    from sklearn.decomposition import PCA
    from sklearn.preprocessing import StandardScaler
    from sklearn.cluster import KMeans
    from sklearn.cross_decomposition import PLSRegression
    from sklearn.svm import LinearSVC
    return {
        "LinearRegression": (lambda: LinearRegression(), "reg", ["predict"]),
        "Ridge": (lambda: Ridge(alpha=0.5), "reg", ["predict"]),
        "DecisionTreeRegressor": (lambda: DecisionTreeRegressor(max_depth=3, random_state=0), "reg", ["predict"]),
        "KNeighborsRegressor": (lambda: KNeighborsRegressor(n_neighbors=2, algorithm="brute"), "reg", ["predict"]),
        "PLSRegression": (lambda: PLSRegression(n_components=1), "reg", ["predict", "transform"]),
        "LogisticRegression": (lambda: LogisticRegression(max_iter=300), "clf",
                               ["predict", "predict_proba", "decision_function"]),
        "GaussianNB": (lambda: GaussianNB(), "clf", ["predict", "predict_proba"]),
        "DecisionTreeClassifier": (lambda: DecisionTreeClassifier(max_depth=3, random_state=0), "clf",
                                   ["predict", "predict_proba"]),
        "KNeighborsClassifier": (lambda: KNeighborsClassifier(n_neighbors=3, algorithm="brute"), "clf",
                                 ["predict", "predict_proba"]),
        "LinearSVC": (lambda: LinearSVC(random_state=0), "clf", ["predict", "decision_function"]),
        "PCA": (lambda: PCA(n_components=2, random_state=0), "tr", ["transform"]),
        "StandardScaler": (lambda: StandardScaler(), "tr", ["transform"]),
        "KMeans": (lambda: KMeans(n_clusters=3, n_init=2, random_state=0), "tr", ["transform", "predict"]),
    }


def data(rng, kind, k=None):
    n = int(rng.randint(20, 80))
    X = rng.randn(n, 3)
    if kind == "clf":
        k = k or int(rng.randint(2, 4))
        y = numpy.digitize(X[:, 0] + 0.5 * X[:, 1], numpy.linspace(-0.7, 0.7, k - 1) if k > 2 else [0.0])
        y[:k] = numpy.arange(k)
    else:
        y = X[:, 0] * 2 - X[:, 2] + rng.randn(n) * 0.1
    return X, y


def fingerprint(obj, depth=0):
    """Structural fingerprint of fitted state (attributes ending with '_'), arrays by bytes."""
    from sklearn.base import BaseEstimator
    if depth > 4:
        return "deep"
    if isinstance(obj, numpy.ndarray):
        return ("nd", obj.shape, str(obj.dtype), obj.tobytes())
    if isinstance(obj, BaseEstimator):
        items = []
        for k in sorted(obj.__dict__):
            if k.endswith("_") and not k.endswith("__"):
                items.append((k, fingerprint(obj.__dict__[k], depth + 1)))
        return (type(obj).__name__, tuple(items), repr(sorted(obj.get_params(deep=False).items(), key=str))[:2000])
    if isinstance(obj, (list, tuple)):
        return tuple(fingerprint(o, depth + 1) for o in obj)
    if isinstance(obj, dict):
        return tuple((repr(k), fingerprint(v, depth + 1)) for k, v in sorted(obj.items(), key=lambda kv: repr(kv[0])))
    if isinstance(obj, (int, float, str, bool, type(None), numpy.generic)):
        return repr(obj)
    try:
        return ("pickle", pickle.dumps(obj))
    except Exception:
        return ("type", type(obj).__name__)


def identity_eq_attrs(est):
    """Fitted attributes whose type only has identity equality (a deep copy is != the original)."""
    import copy
    from sklearn.base import BaseEstimator
    out = []
    for k, v in est.__dict__.items():
        if not (k.endswith("_") and not k.endswith("__")):
            continue
        if isinstance(v, (numpy.ndarray, numpy.generic, int, float, str, bool, list, tuple, dict, BaseEstimator,
                          type(None))):
            continue
        try:
            if not (copy.deepcopy(v) == v):
                out.append("%s:%s" % (k, type(v).__name__))
        except Exception:
            out.append("%s:%s" % (k, type(v).__name__))
    return out


def as2d(a):
    a = numpy.asarray(a)
    return a[:, numpy.newaxis] if a.ndim == 1 else a


def batches(rng, X):
    return {"n-rows": X, "one-row": X[:1], "two-rows": X[3:5], "new": rng.randn(7, X.shape[1])}


def run_learner(case, ctx):
    from sklearn.base import clone
    from mlinsights.sklapi import SkBaseTransformLearner
    rng = numpy.random.RandomState(case["sub"] % (2 ** 31))
    M = models()
    for name, (mk, kind, methods) in M.items():
        X, y = data(rng, kind)
        for meth in methods + ["default", "callable", "callable-bound-to-another-object"]:
            cfg = {"model": name, "method": meth, "sub": case["sub"]}
            K = "C15/learner/"
            model = mk()
            if meth == "callable":
                real_method = methods[-1]
                arg = (lambda m: (lambda Z: getattr(m, real_method)(Z)))(model)
            elif meth == "callable-bound-to-another-object":
                # the method of ANOTHER, already trained object (a pre-trained model, a frozen projection): the wrapper
                # trains its own model and answers with the callable it was given
                real_method = methods[-1]
                other_obj = mk()
                Xo = X * 0.5 + 1.0
                other_obj.fit(Xo, y) if kind != "tr" else other_obj.fit(Xo)
                arg = getattr(other_obj, real_method)
            elif meth == "default":
                arg = None
                real_method = None
            else:
                arg = meth
                real_method = meth
            try:
                wr = SkBaseTransformLearner(model, arg)
                numpy.random.seed(5)
                r = wr.fit(X, y) if kind != "tr" else wr.fit(X)
            except Exception as e:
                ctx.hit("learner.transparent")
                ctx.violation(K + "raised/%s" % type(e).__name__, "%s: %s" % (type(e).__name__, str(e)[:150]), cfg=cfg)
                continue
            ctx.check(r is wr, K + "fit-returns-not-self", "fit did not return the wrapper", cfg=cfg)
            if meth == "default":
                real_method = wr.method
                ctx.cls("default-method=%s/%s" % (kind, real_method))
                if not isinstance(real_method, str) or not hasattr(model, real_method):
                    ctx.violation(K + "default-method-invalid", "default method resolved to %r" % (real_method,),
                                  cfg=cfg)
                    continue
            # the wrapped model is trained exactly as a direct fit would train it
            ctx.hit("learner.fit")
            direct = clone(mk())
            numpy.random.seed(5)
            direct.fit(X, y) if kind != "tr" else direct.fit(X)
            inner = wr.model
            ctx.check(inner is model, K + "model-replaced", "the wrapper does not hold the model it was given", cfg=cfg)
            for bname, B in batches(rng, X).items():
                try:
                    got = wr.transform(B)
                except Exception as e:
                    ctx.violation(K + "transform-raised/%s" % type(e).__name__, "%s: %s" % (type(e).__name__, e),
                                  cfg=cfg, batch=bname)
                    continue
                ctx.hit("learner.transparent")
                exp = as2d(getattr(inner, real_method)(B))
                chosen = as2d(arg(B)) if meth == "callable-bound-to-another-object" else exp
                if got.shape != chosen.shape or not numpy.array_equal(got, chosen):
                    ctx.violation(K + "transform-differs/%s" % bname,
                                  "transform on %s (%d rows): shape %r, the chosen method (%s) gives %r" % (
                                      bname, len(B), got.shape, meth if callable(arg) else real_method, chosen.shape),
                                  cfg=cfg)
                ref = as2d(getattr(direct, real_method)(B))
                if ref.shape != exp.shape or not numpy.allclose(ref, exp, rtol=1e-12, atol=1e-12):
                    ctx.violation(K + "not-trained-as-direct-fit", "the wrapped model differs from a directly fitted "
                                  "clone (%s on %s)" % (real_method, bname), cfg=cfg)
                if exp.shape[1] > 1:
                    ctx.nontriv("learner", cfg, bname)
            if meth == "callable-bound-to-another-object":
                continue
            # ---- call sequence on the same wrapper: refused transform, refused fit, fit on other rows (other
            # number of classes / other width): still transparent, still trained as a direct fit
            X2, y2 = data(rng, kind, k=2 if kind == "clf" else None)
            if case["sub"] % 2:
                X2 = numpy.hstack([X2, X2[:, :1] * 0.5 + 1])      # another width
            for refused in (lambda: wr.transform(numpy.ones((2, X.shape[1] + 2))),
                            lambda: wr.fit(X2[:5], y2[:3]) if kind != "tr" else wr.fit(numpy.ones((3, 2, 2)))):
                try:
                    refused()
                except Exception:
                    ctx.hit("learner.sequence.refused")
            try:
                numpy.random.seed(5)
                wr.fit(X2, y2) if kind != "tr" else wr.fit(X2)
                got = wr.transform(X2[:9])
                direct2 = clone(mk())
                numpy.random.seed(5)
                direct2.fit(X2, y2) if kind != "tr" else direct2.fit(X2)
                ctx.hit("learner.sequence")
                exp = as2d(getattr(wr.model, real_method)(X2[:9]))
                ref = as2d(getattr(direct2, real_method)(X2[:9]))
                if got.shape != exp.shape or not numpy.array_equal(got, exp):
                    ctx.violation(K + "transform-differs/after-refit", "after refused calls and a fit on other rows, "
                                  "transform is not the wrapped model's %s" % real_method, cfg=cfg)
                elif ref.shape != exp.shape or not numpy.allclose(ref, exp, rtol=1e-12, atol=1e-12):
                    ctx.violation(K + "not-trained-as-direct-fit/after-refit", "after refused calls and a fit on other "
                                  "rows the wrapped model differs from a directly fitted clone", cfg=cfg)
            except Exception as e:
                ctx.violation(K + "sequence-raised/%s" % type(e).__name__, "refused transform, refused fit, fit on other "
                              "rows, transform: %s" % str(e)[:150], cfg=cfg)
            ctx.cls("model=" + name)
        # fit parameters (sample_weight) reach the wrapped model through fit and through fit_transform,
        # with and without a target
        if name in ("LinearRegression", "Ridge", "LogisticRegression", "GaussianNB", "DecisionTreeRegressor",
                    "DecisionTreeClassifier", "KMeans", "StandardScaler"):
            w = rng.rand(len(X)) * 3 + 0.1
            meth = methods[0]
            for path in ("fit", "fit_transform"):
                cfg = {"model": name, "method": meth, "path": path, "sample_weight": True, "sub": case["sub"]}
                wr = SkBaseTransformLearner(mk(), meth)
                direct = mk()
                try:
                    numpy.random.seed(5)
                    if kind == "tr":
                        direct.fit(X, sample_weight=w)
                    else:
                        direct.fit(X, y, sample_weight=w)
                    numpy.random.seed(5)
                    if path == "fit":
                        wr.fit(X, sample_weight=w) if kind == "tr" else wr.fit(X, y, sample_weight=w)
                        got = wr.transform(X)
                    else:
                        got = wr.fit_transform(X, sample_weight=w) if kind == "tr" else \
                            wr.fit_transform(X, y, sample_weight=w)
                except Exception as e:
                    ctx.violation("C15/learner/fit-params-raised/%s" % type(e).__name__, "%s with sample_weight: %s" % (
                        path, str(e)[:150]), cfg=cfg)
                    continue
                ctx.hit("learner.fit_params")
                exp = as2d(getattr(direct, meth)(X))
                if got.shape != exp.shape or not numpy.allclose(got, exp, rtol=1e-12, atol=1e-12):
                    ctx.violation("C15/learner/fit-params-not-forwarded/%s%s" % (path, "/no-target" if kind == "tr"
                                                                                   else ""),
                                  "%s(X%s, sample_weight=w) does not train the wrapped %s as a direct fit with the "
                                  "same weights does" % (path, "" if kind == "tr" else ", y", name), cfg=cfg)
    # wrapped transformers whose output is a scipy sparse matrix: the wrapper returns the matrix, not something
    # wrapped around it
    import scipy.sparse
    from sklearn.preprocessing import OneHotEncoder, MaxAbsScaler
    from sklearn.feature_extraction.text import TfidfTransformer
    Xc = rng.randint(0, 4, size=(25, 3))
    for sname, mk_, Xs in (("OneHotEncoder", lambda: OneHotEncoder(handle_unknown="ignore"), Xc),
                           ("TfidfTransformer", lambda: TfidfTransformer(), Xc),
                           ("MaxAbsScaler/sparse-input", lambda: MaxAbsScaler(), scipy.sparse.csr_matrix(Xc * 1.0))):
        cfg = {"model": sname, "method": "transform", "sub": case["sub"]}
        for meth_arg in ("transform", "callable"):
            try:
                model = mk_()
                arg = "transform" if meth_arg == "transform" else (lambda Z, m_=model: m_.transform(Z))
                wr = SkBaseTransformLearner(model, arg).fit(Xs)
                got = wr.transform(Xs)
                exp = model.transform(Xs)
            except Exception as e:
                ctx.violation("C15/learner/raised/%s/sparse-output" % type(e).__name__, str(e)[:150], cfg=cfg)
                continue
            ctx.hit("learner.sparse_output")
            same = (scipy.sparse.issparse(got) == scipy.sparse.issparse(exp) and getattr(got, "shape", None) == exp.shape
                    and (got != exp).nnz == 0 if scipy.sparse.issparse(got) and scipy.sparse.issparse(exp) else
                    (not scipy.sparse.issparse(exp) and numpy.array_equal(numpy.asarray(got), numpy.asarray(exp))))
            if not same:
                ctx.violation("C15/learner/transform-differs/sparse-output", "the wrapped %s returns a %s of shape %r, the "
                              "wrapper a %s of shape %r" % (sname, type(exp).__name__, exp.shape, type(got).__name__,
                                                            getattr(got, "shape", None)), cfg=cfg)
    ctx.sample({"models": list(M), "sub": case["sub"]})


def run_stacking(case, ctx):
    from sklearn.base import clone
    from mlinsights.sklapi import SkBaseTransformStacking, SkBaseTransformLearner
    rng = numpy.random.RandomState(case["sub"] % (2 ** 31))
    M = models()
    names = list(M)
    for trial in range(6):
        kind = ["reg", "clf"][trial % 2]
        pool = [n for n in names if M[n][1] in (kind, "tr")]
        size = int(rng.randint(1, 5))
        chosen = [pool[rng.randint(len(pool))] for _ in range(size)]
        method = "predict" if kind == "reg" else ["predict", "predict_proba"][rng.randint(2)]
        chosen = [n for n in chosen if M[n][1] == "tr" or method in M[n][2]] or [pool[0]]
        if trial >= 4:
            # a first member that lets missing values through, later members that do not (and the reverse order)
            first = ["DecisionTreeRegressor", "StandardScaler"] if kind == "reg" else ["DecisionTreeClassifier",
                                                                                       "StandardScaler"]
            later = ["LinearRegression", "Ridge"] if kind == "reg" else ["LogisticRegression", "GaussianNB"]
            chosen = [first[rng.randint(2)], later[rng.randint(2)]]
            if rng.rand() < 0.3:
                chosen = chosen[::-1]
        X, y = data(rng, kind, k=3 if kind == "clf" else None)
        members = []
        for n in chosen:
            m = M[n][0]()
            if rng.rand() < 0.3 and M[n][1] != "tr":
                m = SkBaseTransformLearner(m, method)
            members.append(m)
        if trial == 3:
            # the SAME model object listed twice under two effective methods: as a plain transformer (its distances) and
            # wrapped with the stacking's method (its labels); each member contributes its own columns
            km_ = M["KMeans"][0]()
            method = "predict"
            chosen = ["KMeans", "KMeans", "LinearRegression" if kind == "reg" else "LogisticRegression"]
            members = [km_, SkBaseTransformLearner(km_, "predict"), M[chosen[2]][0]()]
        cfg = {"members": chosen, "method": method, "sub": case["sub"], "trial": trial}
        K = "C15/stacking/"
        try:
            st = SkBaseTransformStacking(members, method)
            numpy.random.seed(3)
            r = st.fit(X, y)
        except Exception as e:
            ctx.hit("stacking.hstack")
            ctx.violation(K + "raised/%s" % type(e).__name__, "%s: %s" % (type(e).__name__, str(e)[:150]), cfg=cfg)
            continue
        ctx.check(r is st, K + "fit-returns-not-self", "fit did not return the wrapper", cfg=cfg)
        ctx.check(len(st.models) == len(members), K + "member-count", "%d members for %d models" % (
            len(st.models), len(members)), cfg=cfg)
        for bname, B in batches(rng, X).items():
            try:
                got = st.transform(B)
            except Exception as e:
                ctx.violation(K + "transform-raised/%s" % type(e).__name__, "%s: %s" % (type(e).__name__, e), cfg=cfg,
                              batch=bname)
                continue
            ctx.hit("stacking.hstack")
            parts = []
            for orig, mem in zip(members, st.models):
                base = orig.model if isinstance(orig, SkBaseTransformLearner) else orig
                # a member that is itself a transformer (has `transform`) is used as such; a learner is
                # converted into a transform through `method`
                if hasattr(base, "transform") and not isinstance(orig, SkBaseTransformLearner):
                    parts.append(as2d(base.transform(B)))
                else:
                    parts.append(as2d(getattr(base, method)(B)))
            exp = numpy.hstack(parts)
            if got.shape != exp.shape or not numpy.array_equal(got, exp):
                ctx.violation(K + "transform-not-hstack/%s" % bname, "transform on %s: shape %r, hstack of the "
                              "members' outputs has %r" % (bname, got.shape, exp.shape), cfg=cfg)
        # ---- a batch with a missing value: some members answer it (trees, scalers), some refuse it.  The stacking
        # is the concatenation of its members' outputs - it answers when all of them do, with exactly their outputs,
        # and refuses when one of them refuses
        Bn = numpy.array(X[:6], dtype=float, copy=True)
        Bn[0, 0] = numpy.nan
        parts, member_refuses = [], None
        for orig in members:
            base = orig.model if isinstance(orig, SkBaseTransformLearner) else orig
            try:
                if hasattr(base, "transform") and not isinstance(orig, SkBaseTransformLearner):
                    parts.append(as2d(base.transform(Bn)))
                else:
                    parts.append(as2d(getattr(base, method)(Bn)))
            except Exception as e:
                member_refuses = type(base).__name__
                break
        try:
            gotn = st.transform(Bn)
        except Exception:
            gotn = None
        ctx.hit("stacking.batch_with_missing_value")
        if member_refuses is not None and gotn is not None:
            ctx.violation(K + "missing-value/answers-where-a-member-refuses", "a batch with a NaN: member %s refuses it "
                          "when called directly, the stacking returns an array of shape %r" % (
                              member_refuses, numpy.shape(gotn)), cfg=cfg)
        elif member_refuses is None and gotn is None:
            ctx.violation(K + "missing-value/refuses-where-all-members-answer", "a batch with a NaN is answered by every "
                          "member and refused by the stacking", cfg=cfg)
        elif gotn is not None:
            expn = numpy.hstack(parts)
            if numpy.shape(gotn) != expn.shape or not numpy.array_equal(numpy.asarray(gotn, dtype=float), expn.astype(float),
                                                                      equal_nan=True):
                ctx.violation(K + "transform-not-hstack/missing-value", "a batch with a NaN: transform is not the hstack "
                              "of the members' outputs", cfg=cfg)
        # ---- fit parameters (sample_weight) reach EVERY member, learners and plain transformers alike: each is trained
        # as a direct fit with the same weights trains it
        wpool = {"reg": ["LinearRegression", "Ridge", "DecisionTreeRegressor"],
                 "clf": ["LogisticRegression", "GaussianNB", "DecisionTreeClassifier"]}[kind]
        wchosen = [["StandardScaler", "KMeans"][trial % 2], wpool[rng.randint(len(wpool))]]
        if trial % 3 == 0:
            wchosen = wchosen[::-1]
        ww = rng.rand(len(X)) * 4 + 0.05
        try:
            stw = SkBaseTransformStacking([M[n_][0]() for n_ in wchosen], method)
            numpy.random.seed(3)
            stw.fit(X, y, sample_weight=ww)
            gotw = stw.transform(X[:8])
            partsw = []
            for n_ in wchosen:
                d_ = M[n_][0]()
                numpy.random.seed(3)
                if M[n_][1] == "tr":
                    d_.fit(X, sample_weight=ww) if n_ == "KMeans" else d_.fit(X, y, sample_weight=ww)
                    partsw.append(as2d(d_.transform(X[:8])))
                else:
                    d_.fit(X, y, sample_weight=ww)
                    partsw.append(as2d(getattr(d_, method)(X[:8])))
            expw = numpy.hstack(partsw)
            ctx.hit("stacking.fit_params")
            if gotw.shape != expw.shape or not numpy.allclose(gotw, expw, rtol=1e-9, atol=1e-9):
                ctx.violation(K + "fit-params-not-forwarded", "fit(X, y, sample_weight=w) on a stacking of %r: transform "
                              "differs from the members fitted directly with the same weights" % (wchosen,), cfg=cfg)
        except Exception as e:
            ctx.violation(K + "fit-params-raised/%s" % type(e).__name__, "stacking %r fitted with sample_weight: %s" % (
                wchosen, str(e)[:120]), cfg=cfg)
        # ---- a target given as one column (n, 1) - a valid multi-output target: members are trained as a direct fit
        # would train them (shapes of coef_ / intercept_ / predict included)
        if kind == "reg":
            try:
                ycol = y.reshape(-1, 1)
                st2 = SkBaseTransformStacking([clone(M[n][0]()) for n in chosen], method)
                numpy.random.seed(3)
                st2.fit(X, ycol)
                ctx.hit("stacking.column_target")
                for n_, mem in zip(chosen, st2.models):
                    base = mem.model if isinstance(mem, SkBaseTransformLearner) else mem
                    d_ = clone(M[n_][0]())
                    numpy.random.seed(3)
                    d_.fit(X, ycol)
                    fm = "transform" if hasattr(d_, "transform") and M[n_][1] == "tr" else method
                    a, b = numpy.asarray(getattr(base, fm)(X[:7])), numpy.asarray(getattr(d_, fm)(X[:7]))
                    sa = {k_: numpy.shape(v_) for k_, v_ in vars(base).items() if k_.endswith("_") and hasattr(v_, "shape")}
                    sb = {k_: numpy.shape(v_) for k_, v_ in vars(d_).items() if k_.endswith("_") and hasattr(v_, "shape")}
                    if a.shape != b.shape or sa != sb or not numpy.allclose(a, b, rtol=1e-12, atol=1e-12):
                        ctx.violation(K + "not-trained-as-direct-fit/column-target", "with a target of shape (n, 1) the "
                                      "member %s differs from a direct fit (predict %r vs %r, attribute shapes %r vs "
                                      "%r)" % (n_, a.shape, b.shape, sorted(sa.items())[:3], sorted(sb.items())[:3]),
                                      cfg=cfg)
                        break
            except Exception as e:
                ctx.excluded("column target refused by a member: %s" % type(e).__name__)
        # ---- call sequence on the same stacking: refused transform, fit on other rows, transform
        X2, y2 = data(rng, kind, k=3 if kind == "clf" else None)
        try:
            st.transform(numpy.ones((2, X.shape[1] + 2)))
        except Exception:
            ctx.hit("stacking.sequence.refused")
        try:
            numpy.random.seed(3)
            st.fit(X2, y2)
            got = st.transform(X2[:9])
            parts = []
            for orig in members:
                base = orig.model if isinstance(orig, SkBaseTransformLearner) else orig
                if hasattr(base, "transform") and not isinstance(orig, SkBaseTransformLearner):
                    parts.append(as2d(base.transform(X2[:9])))
                else:
                    parts.append(as2d(getattr(base, method)(X2[:9])))
            exp = numpy.hstack(parts)
            ctx.hit("stacking.sequence")
            if got.shape != exp.shape or not numpy.array_equal(got, exp):
                ctx.violation(K + "transform-not-hstack/after-refit", "after a refused transform and a fit on other "
                              "rows transform is not the hstack of the members' outputs", cfg=cfg)
            fresh = [clone(M[n][0]()) for n in chosen]
            for f, orig in zip(fresh, members):
                base = orig.model if isinstance(orig, SkBaseTransformLearner) else orig
                numpy.random.seed(3)
                f.fit(X2, y2)
                fm = "transform" if (hasattr(f, "transform") and not isinstance(orig, SkBaseTransformLearner)) \
                    else method
                a, b = as2d(getattr(f, fm)(X2[:9])), as2d(getattr(base, fm)(X2[:9]))
                if a.shape != b.shape or not numpy.allclose(a, b, rtol=1e-12, atol=1e-12):
                    ctx.violation(K + "not-trained-as-direct-fit/after-refit", "a member (%s) refitted through the "
                                  "stacking differs from a directly fitted clone" % type(base).__name__, cfg=cfg)
                    break
        except Exception as e:
            ctx.violation(K + "sequence-raised/%s" % type(e).__name__, str(e)[:150], cfg=cfg)
        if len(members) >= 2:
            ctx.nontriv("stack", cfg)
        ctx.cls("stack-size=%d" % len(members))


def run_transfer(case, ctx):
    from mlinsights.mlmodel import TransferTransformer
    rng = numpy.random.RandomState(case["sub"] % (2 ** 31))
    M = models()
    for name, (mk, kind, methods) in M.items():
        X, y = data(rng, kind, k=3 if kind == "clf" else None)
        X2, y2 = data(rng, kind, k=3 if kind == "clf" else None)
        Q = rng.randn(9, 3)
        for trainable, copy_est in itertools.product((False, True), (False, True)):
            meth = methods[rng.randint(len(methods))] if rng.rand() < 0.7 else None
            cfg = {"model": name, "method": meth, "trainable": trainable, "copy_estimator": copy_est,
                   "sub": case["sub"]}
            K = "C15/transfer/"
            e = mk()
            numpy.random.seed(1)
            # a third of the wrapped estimators were trained on a DataFrame (they carry feature_names_in_)
            on_frame = (case["sub"] + len(name) + int(trainable) + 2 * int(copy_est)) % 3 == 0
            cfg["wrapped_trained_on"] = "DataFrame" if on_frame else "ndarray"
            Xfit = X
            if on_frame:
                import pandas
                Xfit = pandas.DataFrame(X, columns=["f%d" % i for i in range(X.shape[1])])
                ctx.cls("wrapped-trained-on-frame")
            e.fit(Xfit, y) if kind != "tr" else e.fit(Xfit)
            fp0 = fingerprint(e)
            try:
                tt = TransferTransformer(e, method=meth, copy_estimator=copy_est, trainable=trainable)
            except Exception as ex:
                ctx.violation(K + "init-raised/%s" % type(ex).__name__, str(ex)[:150], cfg=cfg)
                continue
            real_method = tt.method
            out0 = numpy.asarray(getattr(e, real_method)(Q))
            history = ["fit", "transform", "fit2", "transform", "fit", "transform"][: int(rng.randint(2, 7))]
            ok = True
            for step in history:
                try:
                    if step == "transform":
                        got = numpy.asarray(tt.transform(Q))
                        ctx.hit("transfer.output")
                        exp = numpy.asarray(getattr(tt.estimator_, real_method)(Q))
                        if got.shape != exp.shape or not numpy.array_equal(got, exp):
                            ctx.violation(K + "transform-differs", "transform is not estimator_.%s" % real_method,
                                          cfg=cfg)
                        if not trainable:
                            ctx.hit("transfer.frozen")
                            if got.shape != out0.shape or not numpy.array_equal(got, out0):
                                ctx.violation(K + "frozen-output-changed", "with trainable=False the output changed "
                                              "after %r" % (history,), cfg=cfg)
                    else:
                        numpy.random.seed(2)
                        Xa, ya = (X, y) if step == "fit" else (X2, y2)
                        r = tt.fit(Xa, ya) if kind != "tr" else tt.fit(Xa)
                        ctx.check(r is tt, K + "fit-returns-not-self", "fit did not return the transformer", cfg=cfg)
                        if copy_est:
                            ctx.check(tt.estimator_ is not e, K + "copy-is-the-original",
                                      "copy_estimator=True but estimator_ is the original object", cfg=cfg)
                        else:
                            ctx.check(tt.estimator_ is e, K + "no-copy-not-the-original",
                                      "copy_estimator=False but estimator_ is another object", cfg=cfg)
                except (AssertionError, TypeError) as ex:
                    ok = False
                    if copy_est or not trainable:
                        ctx.hit("transfer.original_untouched")
                        if fingerprint(e) != fp0:
                            ctx.violation(K + "original-modified/%s/refused-fit" % (
                                "copy_estimator" if copy_est else "not-trainable"), "fit raised %s and the original "
                                "estimator was modified all the same" % type(ex).__name__, cfg=cfg)
                    if isinstance(ex, TypeError) and not (copy_est and step != "transform"):
                        ctx.violation(K + "raised/TypeError", "%s during %s: %s" % (type(ex).__name__, step,
                                                                                     str(ex)[:150]), cfg=cfg)
                        break
                    if copy_est and step != "transform":
                        mech = "attribute-without-value-equality" if identity_eq_attrs(e) else "other"
                        ctx.violation("C15/transfer/fit/self-check-refuses-model/%s" % mech,
                                      "TransferTransformer(copy_estimator=True).fit fails its own "
                                      "assert_estimator_equal for a fitted %s (attributes without value equality: "
                                      "%r)" % (name, identity_eq_attrs(e)), cfg=cfg)
                    else:
                        ctx.violation(K + "raised/AssertionError", str(ex)[:150], cfg=cfg, step=step)
                    break
                except Exception as ex:
                    ok = False
                    ctx.violation(K + "raised/%s" % type(ex).__name__, "%s during %s: %s" % (
                        type(ex).__name__, step, str(ex)[:150]), cfg=cfg)
                    break
            if not ok:
                continue
            fp1 = fingerprint(e)
            out1 = numpy.asarray(getattr(e, real_method)(Q))
            if copy_est or not trainable:
                ctx.hit("transfer.original_untouched")
                if fp1 != fp0 or not numpy.array_equal(out1, out0):
                    which = "copy_estimator" if copy_est else "not-trainable"
                    ctx.violation(K + "original-modified/%s" % which,
                                  "the original estimator changed (state fingerprint %s, predictions %s) after %r" % (
                                      "differs" if fp1 != fp0 else "same",
                                      "differ" if not numpy.array_equal(out1, out0) else "same", history), cfg=cfg)
            if trainable and "fit2" in history:
                ctx.hit("transfer.trainable")
                # the model used by transform is the one trained by the last fit
                last = [s for s in history if s != "transform"][-1]
                Xa, ya = (X, y) if last == "fit" else (X2, y2)
                ref = mk()
                numpy.random.seed(2)
                ref.fit(Xa, ya) if kind != "tr" else ref.fit(Xa)
                exp = numpy.asarray(getattr(ref, real_method)(Q))
                got = numpy.asarray(tt.transform(Q))
                if got.shape != exp.shape or not numpy.allclose(got, exp, rtol=1e-9, atol=1e-9):
                    ctx.violation(K + "trainable-not-retrained/%s" % ("copy" if copy_est else "in-place"),
                                  "trainable=True: transform does not come from a model trained on the last fit's "
                                  "data", cfg=cfg, history=history)
            if not trainable:
                # history: the user trains the wrapped estimator object again (in place, other rows) and fits the
                # transfer again: transform returns what the wrapped estimator returns now
                try:
                    numpy.random.seed(1)
                    e.fit(X2, y2) if kind != "tr" else e.fit(X2)
                    tt.fit(X, y) if kind != "tr" else tt.fit(X)
                    got = numpy.asarray(tt.transform(Q))
                    exp = numpy.asarray(getattr(e, real_method)(Q))
                    ctx.hit("transfer.wrapped_estimator_refitted")
                    if got.shape != exp.shape or not numpy.array_equal(got, exp):
                        ctx.violation(K + "transform-differs/wrapped-estimator-refitted-in-place", "the wrapped estimator "
                                      "was fitted again in place and the transfer fitted again: transform is not the "
                                      "wrapped estimator's %s" % real_method, cfg=cfg)
                except AssertionError:
                    ctx.excluded("self-check refuses the model (known finding, counted where it is first seen)")
                except Exception as ex:
                    ctx.violation(K + "raised/%s" % type(ex).__name__, "wrapped estimator refitted in place: %s" % (
                        str(ex)[:150]), cfg=cfg)
            if len([s for s in history if s != "transform"]) >= 2:
                ctx.nontriv("transfer", cfg, history)
        ctx.cls("model=" + name)
    # ---- the wrapped estimator is updated IN PLACE between two transfers (same coefficient array, other content: what
    # partial_fit or `coef_ *= 2` do); the second transfer copies what the estimator holds now
    from sklearn.linear_model import LinearRegression as _LR, SGDRegressor as _SGD
    Xi, yi_ = rng.randn(40, 3), rng.randn(40)
    Qi = rng.randn(7, 3)
    for ename, e_ in (("LinearRegression", _LR().fit(Xi, yi_)),
                      ("SGDRegressor", _SGD(max_iter=5, tol=None, random_state=0).fit(Xi, yi_))):
        cfg = {"model": ename, "copy_estimator": True, "history": "transfer, in-place update, transfer", "sub": case["sub"]}
        try:
            t1 = TransferTransformer(e_, method="predict", copy_estimator=True).fit(Xi, yi_)
            first = numpy.asarray(t1.transform(Qi)).copy()
            if ename == "SGDRegressor":
                e_.partial_fit(Xi * 2 + 1, yi_ * 3)
            else:
                e_.coef_ *= 1.5
            t2 = TransferTransformer(e_, method="predict", copy_estimator=True).fit(Xi, yi_)
            got2 = numpy.asarray(t2.transform(Qi)).ravel()
            exp2 = numpy.asarray(e_.predict(Qi)).ravel()
            again1 = numpy.asarray(t1.transform(Qi))
        except Exception as ex:
            ctx.violation("C15/transfer/raised/%s/in-place-update" % type(ex).__name__, "transfer, in-place update of the "
                          "wrapped %s, transfer again: %s" % (ename, str(ex)[:120]), cfg=cfg)
            continue
        ctx.hit("transfer.in_place_update_between_transfers")
        if got2.shape != exp2.shape or not numpy.array_equal(got2, exp2):
            ctx.violation("C15/transfer/transform-differs/in-place-update", "the second transfer of a %s updated in place does "
                          "not return the estimator's current output" % ename, cfg=cfg)
        if not numpy.array_equal(again1, first):
            ctx.violation("C15/transfer/copy-not-independent/in-place-update", "the first transfer (copy_estimator=True) changed "
                          "when the original was updated in place", cfg=cfg)
    # ---- frozen transfers of trained estimators that do not record n_features_in_ (text vectorizers, isotonic
    # regression): fit on other data leaves the user's object and its answers alone
    from sklearn.feature_extraction.text import CountVectorizer, TfidfVectorizer
    from sklearn.isotonic import IsotonicRegression
    corpus1 = ["aa bb cc", "bb cc dd", "the cat", "aa the dog"]
    corpus2 = ["zz yy", "yy xx ww", "zz cat"]
    x1 = numpy.sort(rng.rand(30)) * 10
    y1 = numpy.sqrt(x1) + rng.randn(30) * 0.05
    x2, y2b = rng.rand(25) * 3, -rng.rand(25)
    for wname, wrapped, meth_, Qw, Xo, yo in (
            ("CountVectorizer", CountVectorizer().fit(corpus1), "transform", corpus1 + ["aa zz"], corpus2, None),
            ("TfidfVectorizer", TfidfVectorizer().fit(corpus1), "transform", corpus1 + ["aa zz"], corpus2, None),
            ("IsotonicRegression", IsotonicRegression(out_of_bounds="clip").fit(x1, y1), "predict", x1[:9], x2, y2b)):
        cfg = {"model": wname, "method": meth_, "trainable": False, "copy_estimator": False, "sub": case["sub"]}

        def dense(a):
            return numpy.asarray(a.todense()) if hasattr(a, "todense") else numpy.asarray(a)
        try:
            out0 = dense(getattr(wrapped, meth_)(Qw))
            fp0 = fingerprint(wrapped)
            tt = TransferTransformer(wrapped, method=meth_, copy_estimator=False, trainable=False)
            tt.fit(Xo, yo) if yo is not None else tt.fit(Xo)
            got = dense(tt.transform(Qw))
            out1 = dense(getattr(wrapped, meth_)(Qw))
        except Exception as ex:
            ctx.violation("C15/transfer/raised/%s/no-n_features_in_" % type(ex).__name__, "frozen transfer of a trained %s: "
                          "%s" % (wname, str(ex)[:120]), cfg=cfg)
            continue
        ctx.hit("transfer.frozen.without_n_features_in_")
        if out1.shape != out0.shape or not numpy.array_equal(out1, out0) or fingerprint(wrapped) != fp0:
            ctx.violation("C15/transfer/original-modified/frozen/no-n_features_in_", "trainable=False, copy_estimator=False: "
                          "fit on other data changed the wrapped %s (its %s answers differently)" % (wname, meth_), cfg=cfg)
        elif got.reshape(out0.shape[0], -1).shape != out0.reshape(out0.shape[0], -1).shape or not numpy.array_equal(
                got.reshape(out0.shape[0], -1), out0.reshape(out0.shape[0], -1)):
            ctx.violation("C15/transfer/frozen-output-changed/no-n_features_in_", "transform of the frozen transfer is not "
                          "what the wrapped %s answered before fit" % wname, cfg=cfg)


def run_case(case, ctx):
    {"learner": run_learner, "stacking": run_stacking, "transfer": run_transfer}[case["gen"]](case, ctx)


def evaluations(counters, ncases):
    return int(sum(counters.values()))
