"""C08 - piecewise estimators: a partition by the binner with one local model per bucket.

Recording local estimators (vrt/probes.py) say exactly which rows, targets and weights reached each
local model; buckets are recomputed by an independent route (Tree.apply / bin edges); predictions are
recomputed bucket by bucket from the fitted local models; the same fit is repeated with several n_jobs
values and under sys.monitoring yield injection in the worker threads (vrt/sched.py), and every output
must be identical.  The number of distinct interleavings of probe events observed is reported.
"""
import numpy

PROPERTY = "C08"
LEVEL = "exploration"
NEED_EXT = True
REQUIRED = ["fit.partition", "fit.alignment", "fit.borrowing", "predict.routing", "predict.unseen_bucket",
            "transform_bins", "njobs.equal", "schedule.equal", "proba.simplex"]
RULE = ("regressor / classifier x binner {tree depth 1-6, KBinsDiscretizer 1-3 features x 2-5 bins, 'bins'} x local "
        "model {linear, dummy, tree / logistic, dummy, tree} x weights {none, random, with zeros} x label sets x "
        "DataFrame x n_jobs {None,1,2,4,8} x yield-injected schedules; non-trivial = >= 2 non-empty buckets and (for "
        "discretisers) >= 1 bucket unseen at predict time; distinct = distinct configuration")
ASSUMPTIONS = ["integer class labels (the scatter buffer is a float array: strings cannot be stored, scikit-learn "
               "itself refuses float labels); counted as domain_excluded when generated",
               "schedule clause decided by differential outcome under yield injection; no race detector "
               "(Python-level threads are GIL-serialised, TSan/helgrind on CPython only produce noise)",
               "rows are unique (continuous features) so that a row identifies its training index"]
CASE_TIMEOUT = 300


def cases(tier, seed):
    n = 192 if tier == "quick" else 1600
    return [{"gen": "pw", "id": "pw-%d" % i, "sub": seed * 1000003 + i, "tier": tier} for i in range(n)]


def bucket_route(binner, X):
    """Independent bucket identity for every row: leaf id, or tuple of ordinal bins."""
    if hasattr(binner, "tree_"):
        return [int(v) for v in binner.apply(X)]
    out = []
    edges = binner.bin_edges_
    cols = []
    for j in range(X.shape[1]):
        e = edges[j]
        cols.append(numpy.clip(numpy.searchsorted(e[1:-1], X[:, j], side="right"), 0, len(e) - 2))
    cols = numpy.array(cols).T
    for r in cols:
        out.append(tuple(int(v) for v in r))
    return out


REFUSE = {"on": False}
_REFUSABLE = {}


def _refusable(cls):
    """Subclass of a scikit-learn binner whose fit raises while REFUSE['on'] (clone keeps the class)."""
    if cls not in _REFUSABLE:
        from vrt import probes

        def fit(self, X, y=None, sample_weight=None, _base=cls):
            if REFUSE["on"]:
                raise probes.InjectedFault("binner told to refuse this fit")
            if sample_weight is None:
                return _base.fit(self, X, y)
            return _base.fit(self, X, y, sample_weight=sample_weight)
        _REFUSABLE[cls] = type(cls.__name__, (cls,), {"fit": fit, "__module__": cls.__module__})
    return _REFUSABLE[cls]


def run_case(case, ctx):
    import pandas
    from sklearn.preprocessing import KBinsDiscretizer
    from sklearn.tree import DecisionTreeRegressor, DecisionTreeClassifier
    from mlinsights.mlmodel import PiecewiseRegressor, PiecewiseClassifier
    from vrt import probes
    from vrt.sched import Perturb
    sub = case["sub"]
    tier = case.get("tier", "quick")
    rng = numpy.random.RandomState(sub % (2 ** 31))
    clf = bool(sub % 2)
    n = int(rng.randint(40, 260))
    d = int(rng.randint(1, 4))
    wide = (sub // 11) % 8 == 0
    if wide:
        # many discretised features: the cell of a row is described by more than 53 one-hot columns
        n, d = int(rng.randint(70, 110)), int(rng.randint(12, 15))
    X = rng.randn(n, d)
    if wide:
        # the first features almost always fall in the same bin: cells differ in the LAST features only
        X[:, : d - 3] = (rng.rand(n, d - 3) < 0.04).astype(float) + rng.rand(n, d - 3) * 1e-3
    xdtype = ["float64", "float64", "float64", "int64", "float32"][rng.randint(5)]
    if xdtype == "int64":
        # count-like features, made unique so that a row still identifies its training index
        X = (numpy.round(X * 4) * 100 + numpy.arange(n)[:, None] % 97 + numpy.arange(n)[:, None] // 97).astype(
            numpy.int64)
        X[:, 0] = numpy.round(rng.randn(n) * 4).astype(numpy.int64) * 1000 + numpy.arange(n)
    elif xdtype == "float32":
        X = X.astype(numpy.float32)
    bk = ["tree", "tree", "kbins", "bins"][rng.randint(4)]
    if wide:
        bk = "kbins"
    if bk == "tree":
        depth = int(rng.randint(1, 7))
        binner = _refusable(DecisionTreeClassifier if clf else DecisionTreeRegressor)(max_depth=depth,
                                                                         min_samples_leaf=int(rng.randint(1, 6)),
                                                                         random_state=0)
        bdesc = "tree-depth-%d" % depth
    elif bk == "kbins":
        nb = int(rng.randint(2, 6)) if not wide else 5
        binner = _refusable(KBinsDiscretizer)(n_bins=nb, strategy=["quantile", "uniform"][rng.randint(2)])
        bdesc = "kbins-%d" % nb
    else:
        binner = "bins"
        bdesc = "bins"
    labelsets = [[0, 1], [0, 1, 2], [-1, 1], [10, 20], [3, 5, 9]]      # (predict casts to int32: integer labels only)
    lab = labelsets[rng.randint(len(labelsets))]
    if clf:
        score = X[:, 0] + (X[:, -1] if d > 1 else 0) * 0.7 + rng.randn(n) * 0.3
        yi = numpy.digitize(score, numpy.quantile(score, numpy.linspace(0, 1, len(lab) + 1)[1:-1]))
        y = numpy.array(lab)[yi]
        base = ["logistic", "dummy-clf", "tree-clf", "cost-logistic"][rng.randint(4)]
    else:
        y = X[:, 0] * 2 + numpy.sin(3 * X[:, -1]) + rng.randn(n) * 0.1
        base = ["linear", "dummy-reg", "tree-reg", "nan-outside"][rng.randint(4)]
    wkind = ["none", "none", "random", "zeros"][rng.randint(4)]
    w = None
    if wkind != "none":
        w = rng.rand(n) + 0.2
        if wkind == "zeros":
            w[rng.rand(n) < 0.15] = 0.0
    frame = rng.rand() < 0.15
    rs = int(rng.randint(0, 100))
    cfg = {"kind": "classifier" if clf else "regressor", "binner": bdesc, "local": base, "weights": wkind,
           "x_dtype": xdtype,
           "labels": lab if clf else None, "frame": bool(frame), "n": n, "d": d, "random_state": rs, "sub": sub}
    ctx.cls("binner=" + bk)
    ctx.cls("x_dtype=" + xdtype)
    ctx.cls("classifier" if clf else "regressor")
    K = "C08/%s/" % ("classifier" if clf else "regressor")
    from vrt import layouts
    lay = layouts.pick(sub, 4)
    via = (sub // 5) % 4 == 0
    cfg["layout"], cfg["configured_with"] = lay, "set_params" if via else "constructor"
    ctx.cls("layout=" + lay)
    Xin = pandas.DataFrame(X, columns=["f%d" % i for i in range(d)]) if frame else layouts.relayout(X, lay)
    # targets / weights as pandas Series whose integer index is a permutation of the positions (columns of
    # df.sample(frac=1)): selection by position and selection by label differ there
    ycont = ["ndarray", "ndarray", "ndarray", "series-shuffled-index", "ndarray", "series-default-index"][(sub // 3) % 6]
    cfg["y_container"] = ycont
    ctx.cls("y_container=" + ycont)
    yin, win = y, w
    if ycont != "ndarray":
        ix = numpy.random.RandomState(sub + 77).permutation(n) if ycont == "series-shuffled-index" else numpy.arange(n)
        yin = pandas.Series(y, index=ix)
        win = None if w is None else pandas.Series(w, index=ix)

    def new(n_jobs):
        # 'bins' / 'tree' are spellings the constructor resolves into estimator objects: through set_params the
        # binner is given as the object get_params would report
        from sklearn.preprocessing import KBinsDiscretizer as _KB
        b = _KB() if (via and isinstance(binner, str)) else binner
        if clf:
            return layouts.build(PiecewiseClassifier, dict(
                binner=b, estimator=probes.RecClassifier(base=base, tag="local"), n_jobs=n_jobs,
                random_state=rs), via, dict(binner=DecisionTreeClassifier(max_depth=1),
                                            estimator=probes.RecClassifier(base="dummy-clf", tag="decoy"),
                                            n_jobs=3, random_state=rs + 1))
        return layouts.build(PiecewiseRegressor, dict(
            binner=b, estimator=probes.RecRegressor(base=base, tag="local"), n_jobs=n_jobs), via,
            dict(binner=DecisionTreeRegressor(max_depth=1), estimator=probes.RecRegressor(base="dummy-reg", tag="decoy"),
                 n_jobs=3))

    def fit(m):
        numpy.random.seed(rs)
        return m.fit(Xin, yin) if w is None else m.fit(Xin, yin, sample_weight=win)

    # query batch: training rows, perturbed rows, far rows (unseen cells for discretisers)
    spread = float(numpy.abs(X).max())
    Q = numpy.vstack([X[: min(n, 25)], X[rng.randint(n, size=25)] + rng.randn(25, d) * 0.3 * max(1.0, spread / 4),
                      rng.uniform(-spread, spread, size=(40, d))]).astype(X.dtype)
    methods = ["predict"] + (["predict_proba"] + (["decision_function"] if base == "logistic" else []) if clf else [])

    def outputs(m):
        return {meth: numpy.asarray(getattr(m, meth)(Q)) for meth in methods}

    Xk, yk = X.copy(), y.copy()
    m0 = new(None)
    try:
        r = fit(m0)
    except Exception as e:
        ctx.hit("fit.partition")
        if wkind == "zeros" and "weight" in str(e).lower():
            # a bucket whose rows all have weight zero: the local scikit-learn model refuses it
            ctx.excluded("bucket-with-all-zero-weights")
            return
        ctx.violation(K + "fit/raised/%s" % type(e).__name__, "fit raised: %s" % str(e)[:200], cfg=cfg)
        return
    ctx.check(r is m0, K + "fit/returns-not-self", "fit did not return the estimator", cfg=cfg)
    ctx.check(numpy.array_equal(X, Xk) and numpy.array_equal(y, yk), K + "fit/input-modified", "X or y written to",
              cfg=cfg)

    # ---- structure of the fit: partition, one model per non-empty bucket, alignment, borrowing
    route = bucket_route(m0.binner_, X)
    buckets = {}
    for i, b in enumerate(route):
        buckets.setdefault(b, []).append(i)
    ctx.hit("fit.partition")
    if m0.n_estimators_ != len(buckets) or len(m0.estimators_) != len(buckets):
        ctx.violation(K + "fit/number-of-local-models", "%d local models for %d non-empty buckets" % (
            m0.n_estimators_, len(buckets)), cfg=cfg)
        return
    tb = numpy.asarray(m0.transform_bins(X))
    ctx.hit("transform_bins")
    if (tb < 0).any() or len(set(zip(route, tb.tolist()))) != len(buckets) or len(set(tb.tolist())) != len(buckets):
        ctx.violation(K + "transform_bins/not-the-binner-partition", "transform_bins on the training set does not "
                      "induce the binner's partition (%d ids for %d buckets, min id %r)" % (
                          len(set(tb.tolist())), len(buckets), tb.min()), cfg=cfg)
        return
    b2e = {b: int(tb[idx[0]]) for b, idx in buckets.items()}   # bucket -> index in estimators_
    ctx.hit("fit.models_keep_their_rows")
    why = probes.kept_arrays_intact(list(m0.estimators_))
    if why:
        ctx.violation(K + "fit/local-model-features-shared", why + " (a local model that keeps its training features "
                      "is left with rows of another bucket)", cfg=cfg)
    index = probes.row_index(X)
    allcl = sorted(set(y.tolist())) if clf else None
    borrowers = 0
    for b, idx in buckets.items():
        est = m0.estimators_[b2e[b]]
        if not hasattr(est, "seen_X_"):
            ctx.violation(K + "fit/local-model-not-fitted", "a local model was not fitted", cfg=cfg)
            return
        got = probes.rows_to_indices(index, est.seen_X_)
        ctx.hit("fit.alignment")
        if (got < 0).any():
            ctx.violation(K + "fit/foreign-row", "a local model received a row that is not a training row", cfg=cfg)
            return
        if not numpy.array_equal(est.seen_y_, y[got]):
            ctx.violation(K + "fit/target-misaligned", "targets given to a local model do not belong to its rows",
                          cfg=cfg)
            return
        if w is not None and (est.seen_w_ is None or not numpy.array_equal(est.seen_w_, w[got])):
            ctx.violation(K + "fit/weight-misaligned", "weights given to a local model do not belong to its rows",
                          cfg=cfg)
            return
        if w is None and est.seen_w_ is not None:
            ctx.violation(K + "fit/weight-invented", "weights passed although none given", cfg=cfg)
        inside = set(idx)
        gotset = got.tolist()
        extra = [g for g in gotset if g not in inside]
        missing = inside - set(gotset)
        if missing or len(gotset) != len(set(gotset)):
            ctx.violation(K + "fit/bucket-rows-missing", "a local model did not receive exactly its bucket's rows "
                          "(%d missing, %d duplicated)" % (len(missing), len(gotset) - len(set(gotset))), cfg=cfg)
            return
        if not clf:
            if extra:
                ctx.violation(K + "fit/row-of-another-bucket", "a local regressor received %d rows of other buckets"
                              % len(extra), cfg=cfg)
                return
        else:
            present = set(y[idx].tolist())
            miss_cl = [c for c in allcl if c not in present]
            ctx.hit("fit.borrowing")
            borrowers += bool(miss_cl)
            ecl = sorted(y[extra].tolist())
            if ecl != sorted(miss_cl):
                ctx.violation(K + "fit/borrowing-wrong", "bucket with classes %r borrowed examples of classes %r "
                              "(missing: %r)" % (sorted(present), ecl, miss_cl), cfg=cfg)
                return
    me = m0.mean_estimator_
    if hasattr(me, "seen_X_"):
        ctx.check(me.seen_X_.shape[0] == n and numpy.array_equal(me.seen_y_, y), K + "fit/mean-estimator-data",
                  "the fallback model was not trained on the whole training set", cfg=cfg)

    # ---- prediction: routing by the independent route, fallback for unseen buckets
    ref = outputs(m0)
    qroute = bucket_route(m0.binner_, Q)
    tbq = numpy.asarray(m0.transform_bins(Q))
    exp_tb = numpy.array([b2e.get(b, -1) for b in qroute])
    ctx.hit("transform_bins")
    if not numpy.array_equal(tbq, exp_tb):
        j = int(numpy.where(tbq != exp_tb)[0][0])
        ctx.violation(K + "transform_bins/wrong-bucket", "row %d: transform_bins=%r, independent route says %r (%s)" % (
            j, tbq[j], exp_tb[j], "unseen bucket" if exp_tb[j] < 0 else "seen bucket"), cfg=cfg)
    unseen = exp_tb < 0
    if unseen.any():
        ctx.hit("predict.unseen_bucket", int(unseen.sum()))
    for meth in methods:
        got = ref[meth]
        exp = numpy.zeros(got.shape, dtype=float)
        for e in set(exp_tb.tolist()):
            mask = exp_tb == e
            model = me if e < 0 else m0.estimators_[e]
            exp[mask] = getattr(model, meth)(Q[mask])
        ctx.hit("predict.routing")
        if got.shape[0] != len(Q) or not numpy.allclose(got, exp, rtol=1e-12, atol=1e-12, equal_nan=True):
            bad = ~numpy.isclose(got.reshape(len(Q), -1), exp.reshape(len(Q), -1), rtol=1e-12, atol=1e-12,
                                 equal_nan=True).all(axis=1)
            where = "unseen-bucket" if (bad & unseen).any() else "seen-bucket"
            ctx.violation(K + "%s/not-the-bucket-model/%s" % (meth, where),
                          "%d rows do not get the output of their bucket's model (%s rows; fallback = global model)"
                          % (int(bad.sum()), where), cfg=cfg)
    # batches in which the ONLY row of an unseen bucket comes first (and the single-row batch of it): same answers
    seen_idx = numpy.where(~unseen)[0]
    for j in numpy.where(unseen)[0][:3].tolist():
        for sel in ([j], [j] + seen_idx[:4].tolist()):
            for meth in methods:
                try:
                    got1 = numpy.asarray(getattr(m0, meth)(Q[sel]))
                except Exception as e:
                    ctx.violation(K + "%s/raised/%s/unseen-row-first" % (meth, type(e).__name__), str(e)[:120], cfg=cfg)
                    continue
                ctx.hit("predict.unseen_row_first")
                exp1 = numpy.asarray(ref[meth])[sel]
                # (a row asked alone goes through another BLAS path than inside its batch: last-bits slack, by dtype)
                rt1 = 1e-4 if xdtype == "float32" else 1e-9
                if got1.shape != exp1.shape or not numpy.allclose(got1, exp1, rtol=rt1, atol=rt1 * (1 + float(
                        numpy.nanmax(numpy.abs(exp1)) if exp1.size else 0)), equal_nan=True):
                    ctx.violation(K + "%s/not-the-bucket-model/unseen-row-first" % meth, "a batch of %d rows whose only row of "
                                  "an unseen bucket is the first one: %s differs from what the same rows get inside the "
                                  "full batch (fallback = global model)" % (len(sel), meth), cfg=cfg)
    if clf:
        ctx.hit("proba.simplex")
        P = ref["predict_proba"]
        cl = list(m0.classes_)
        ctx.check(cl == allcl, K + "classes", "classes_=%r, labels=%r" % (cl, allcl), cfg=cfg)
        if P.shape != (len(Q), len(allcl)) or (P < -1e-12).any() or not numpy.allclose(P.sum(axis=1), 1, atol=1e-9):
            ctx.violation(K + "predict_proba/not-a-distribution", "a probability row is not a distribution over "
                          "classes_", cfg=cfg)
        if not set(ref["predict"].tolist()) <= set(allcl):
            ctx.violation(K + "predict/label-outside-classes", "predicted %r, classes_ %r" % (
                sorted(set(ref["predict"].tolist()))[:6], allcl), cfg=cfg)

    # ---- history: a second fit on other rows that the BINNER refuses (first step of fit) changes nothing: every
    # row, in seen and unseen buckets, is answered as before
    if bk != "bins":
        X2 = (X[::-1] * 0.5 + 1).astype(X.dtype)
        y2 = y[::-1].copy()
        REFUSE["on"] = True
        try:
            numpy.random.seed(rs)
            m0.fit(X2, y2)
            refused = False
        except probes.InjectedFault:
            refused = True
        except Exception:
            refused = None
        finally:
            REFUSE["on"] = False
        if refused:
            ctx.hit("history.refit_refused_by_binner")
            after = outputs(m0)
            for meth in methods:
                if after[meth].shape != ref[meth].shape or not numpy.array_equal(after[meth], ref[meth], equal_nan=True):
                    chg = numpy.where((after[meth].reshape(len(Q), -1) != ref[meth].reshape(len(Q), -1)).any(axis=1))[0]
                    where = "unseen-bucket" if unseen[chg].any() else "seen-bucket"
                    ctx.violation(K + "%s/changed-by-refused-refit/%s" % (meth, where),
                                  "a refit refused by the binner changed %s for %d rows (%s)" % (
                                      meth, len(chg), where), cfg=cfg)
                    break

    # ---- n_jobs and schedules: every output identical to the serial fit
    def same(o, tag, monitor):
        for meth in methods:
            ctx.hit(monitor)
            if o[meth].shape != ref[meth].shape or not numpy.array_equal(o[meth], ref[meth], equal_nan=True):
                diff = float(numpy.abs(o[meth].astype(float) - ref[meth].astype(float)).max()) \
                    if o[meth].shape == ref[meth].shape else -1.0
                ctx.violation(K + "%s/%s" % (monitor.replace(".", "-"), "borrowing" if (clf and borrowers >= 2)
                                               else "no-borrowing"),
                              "%s differs from the serial fit with %s (max diff %.3g, %d buckets, %d borrow)" % (
                                  meth, tag, diff, len(buckets), borrowers), cfg=cfg)
                return False
        return True

    jobs = [1, 2, 4, 8] if tier == "thorough" else [[1, 2], [4], [2, 8], [4]][sub % 4]
    if wide:
        jobs = jobs[:1]       # dozens of buckets: the structural clauses above are what this class is for
    for nj in jobs:
        mj = new(nj)
        try:
            fit(mj)
            same(outputs(mj), "n_jobs=%d" % nj, "njobs.equal")
        except Exception as e:
            ctx.violation(K + "njobs/raised/%s" % type(e).__name__, "n_jobs=%d: %s" % (nj, str(e)[:150]), cfg=cfg)
    sigs = set()
    nsched = 3 if tier == "quick" else 6
    for s in range(nsched):
        probes.RECORDER.clear()
        mj = new(4)
        try:
            with Perturb(("piecewise_estimator.py", "probes.py"), seed=sub * 31 + s, prob=0.35) as pt:
                fit(mj)
                o = outputs(mj)
            sig = tuple((e[0], e[3]) for e in probes.RECORDER.signature() if e[1] == "local")
            sigs.add(sig)
            ctx.extra.setdefault("yields", 0)
            ctx.extra["yields"] += pt.yields
            same(o, "n_jobs=4 under yield injection (schedule %d)" % s, "schedule.equal")
        except Exception as e:
            ctx.violation(K + "schedule/raised/%s" % type(e).__name__, "%s" % str(e)[:150], cfg=cfg)
    ctx.extra["interleavings"] = len(sigs)
    ctx.hit("schedule.distinct_interleavings", len(sigs))
    if len(buckets) >= 2 and (bk == "tree" or unseen.any()):
        ctx.nontriv(cfg)
    ctx.sample({"cfg": cfg, "buckets": len(buckets), "borrowing_buckets": borrowers,
                "unseen_query_rows": int(unseen.sum()), "distinct_interleavings": len(sigs)})


def summarize(extras, counters):
    return {"distinct_interleavings_observed_total": int(sum(e.get("interleavings", 0) for e in extras)),
            "cases_with_>=2_interleavings": int(sum(1 for e in extras if e.get("interleavings", 0) >= 2)),
            "yield_injections": int(sum(e.get("yields", 0) for e in extras))}


def evaluations(counters, ncases):
    return int(counters.get("fit.alignment", 0) + counters.get("predict.routing", 0)
               + counters.get("njobs.equal", 0) + counters.get("schedule.equal", 0))
