"""C10 - DecisionTreeLogisticRegression is a consistent tree of binary classifiers.

Monitor: an independent walk over the fitted node objects (estimator, threshold, above, below, index).
For every row the nodes marked by decision_path must be a root-to-terminal chain, every step of the chain
must follow the parent's probability against its threshold (rows within 1e-9 of the threshold may go
either way, but consistently: see next), the chain must stop only where the chosen side has no child,
and predict_proba must be the probabilities of the chain's terminal classifier.  The last clause ties
decision_path and predict_proba together on exact ties too, which fit_improve produces on training rows.
"""
import numpy

PROPERTY = "C10"
LEVEL = "exploration"
NEED_EXT = True
REQUIRED = ["fit", "path.chain", "path.routing", "proba.terminal", "predict.threshold", "indices", "leaves",
            "depth", "refit.structure", "frame.reordered_columns"]
RULE = ("binary data classes separable / xor / rings / imbalanced / duplicates / one feature x label sets {0,1}, "
        "{-1,1}, {3,7}, strings, floats x max_depth 1-6 x min_samples_leaf x min_samples_split x fit_improve_algo x "
        "gamma x p1p2 x base estimators x weights x DataFrame; queried on the training rows (exact ties after "
        "fit_improve) and new rows; non-trivial = fitted tree with >= 3 nodes; distinct = distinct configuration")
ASSUMPTIONS = ["rows whose node probability is within 1e-9 of the threshold may be routed either way; they are "
               "still required to have predict_proba equal to their decision_path terminal's probabilities",
               "probabilities compared with atol 1e-9 (node classifiers are re-evaluated on the whole batch)"]

DATA = ["separable", "xor", "rings", "imbalanced", "duplicates", "one-feature"]
LABELS = [("01", [0, 1]), ("-11", [-1, 1]), ("37", [3, 7]), ("str", ["a", "b"]), ("float", [0.5, 2.5]),
          ("str-unequal-length", ["no", "yes"]), ("str-long-second", ["setosa", "versicolor"]),
          ("bool", [False, True])]
TOL = 1e-9


def cases(tier, seed):
    n = 320 if tier == "quick" else 4000
    return [{"gen": "dtlr", "id": "dtlr-%d" % i, "sub": seed * 1000003 + i} for i in range(n)]


def make_data(rng, kind):
    n = int(rng.randint(20, 160))
    d = 1 if kind == "one-feature" else int(rng.randint(2, 5))
    X = rng.randn(n, d)
    if kind == "separable":
        y = (X[:, 0] + 0.5 * X[:, -1] > 0.2).astype(int)
    elif kind == "xor":
        y = ((X[:, 0] > 0) ^ (X[:, 1] > 0)).astype(int)
    elif kind == "rings":
        r = numpy.sqrt((X[:, :2] ** 2).sum(axis=1))
        y = ((r > 0.7) & (r < 1.6)).astype(int)
    elif kind == "imbalanced":
        y = numpy.zeros(n, dtype=int)
        y[rng.choice(n, int(rng.randint(1, 4)), replace=False)] = 1
        X[y == 1] += 2
    elif kind == "duplicates":
        base = rng.randn(8, d)
        idx = rng.randint(8, size=n)
        X = base[idx]
        y = (idx % 2).astype(int)
        y[rng.rand(n) < 0.1] ^= 1
    else:
        y = ((X[:, 0] > -0.3) & (X[:, 0] < 0.9)).astype(int)
    if len(set(y.tolist())) < 2:
        y[0], y[1] = 0, 1
    return X, y


def walk(node, depth=1, out=None):
    out = [] if out is None else out
    out.append((node, depth))
    for ch in (node.above, node.below):
        if ch is not None:
            walk(ch, depth + 1, out)
    return out


def run_case(case, ctx):
    import pandas
    from sklearn.linear_model import LogisticRegression
    from sklearn.tree import DecisionTreeClassifier
    from sklearn.naive_bayes import GaussianNB
    from sklearn.svm import SVC
    from sklearn.linear_model import SGDClassifier
    from mlinsights.mlmodel import DecisionTreeLogisticRegression
    sub = case["sub"]
    rng = numpy.random.RandomState(sub % (2 ** 31))
    kind = DATA[sub % len(DATA)]
    lname, lvals = LABELS[(sub // len(DATA)) % len(LABELS)]
    X, yi = make_data(rng, kind)
    xdt = ["float64", "float64", "float32", "float64", "float32"][(sub // 3) % 5]
    if xdt == "float32":
        X = X.astype(numpy.float32)       # single-precision features at fit and at predict time
    ctx.cls("x_dtype=" + xdt)
    # node classifiers are re-evaluated here on the whole batch, the library evaluates them on the rows that reach the
    # node: in single precision the two differ in the last bits (1e-7), so rows within `tol` of a threshold are not
    # judged by the independent routing oracle, and probabilities are compared at `tol`
    tol = TOL if xdt == "float64" else 2e-6
    y = numpy.array(lvals, dtype=object if lname == "str" else None)[yi]
    if lname == "str":
        y = y.astype(str)
    base = ["logreg", "logreg", "logreg", "tree", "gnb", "svc", "sgd", "logreg-no-intercept", "gnb"][rng.randint(9)]
    algo = [None, "none", "auto", "intercept_sort", "intercept_sort_always"][rng.randint(5)]
    if base not in ("logreg", "sgd", "logreg-no-intercept") and algo == "intercept_sort_always":
        algo = "auto"
    params = dict(max_depth=int(rng.randint(1, 7)), min_samples_leaf=int([1, 2, 5, 10, 20][rng.randint(5)]),
                  min_samples_split=int([2, 5, 15, 40][rng.randint(4)]), fit_improve_algo=algo,
                  gamma=float([0.0, 1.0, 5.0][rng.randint(3)]), p1p2=float([0.0, 0.09, 0.25][rng.randint(3)]))
    weighted = rng.rand() < 0.25
    frame = rng.rand() < 0.15
    est = {"logreg": lambda: LogisticRegression(max_iter=500),
           # a linear node classifier without intercept: the border of an improved node moves through its threshold
           "logreg-no-intercept": lambda: LogisticRegression(max_iter=500, fit_intercept=False),
           "tree": lambda: DecisionTreeClassifier(max_depth=2, random_state=0),
           "gnb": lambda: GaussianNB(),
           "svc": lambda: SVC(probability=True, random_state=0, kernel=["rbf", "linear"][sub % 2]),
           "sgd": lambda: SGDClassifier(loss="log_loss", random_state=0, max_iter=300)}[base]()
    cfg = dict(params, data=kind, labels=lname, base=base, weighted=bool(weighted), frame=bool(frame),
               n=int(X.shape[0]), d=int(X.shape[1]), sub=sub)
    ctx.cls("data=" + kind)
    ctx.cls("labels=" + lname)
    ctx.cls("algo=%s" % algo)
    ctx.cls("base=" + base)
    K = "C10/"
    if sub % 3 == 1:
        # configured through set_params after construction (what clone + set_params / a grid search does)
        m = DecisionTreeLogisticRegression(estimator=est, max_depth=params["max_depth"] + 9, min_samples_leaf=3,
                                           min_samples_split=7, gamma=2.5, p1p2=0.11)
        from vrt import layouts as _lay
        m.set_params(**(_lay.numpy_scalars(params) if sub % 2 else params))
        cfg["configured_with"] = "set_params" + ("/numpy-scalars" if sub % 2 else "")
    else:
        m = DecisionTreeLogisticRegression(estimator=est, **params)
    w = rng.rand(len(X)) + 0.5 if weighted else None
    from vrt import layouts
    lay = layouts.pick(sub, 5)
    cfg["layout"] = lay
    ctx.cls("layout=" + lay)
    Xin = pandas.DataFrame(X, columns=["f%d" % i for i in range(X.shape[1])]) if frame else layouts.relayout(X, lay)
    yin = y
    if frame and sub % 2:
        # a frame and a target Series that share a permuted index (rows of df.sample(frac=1))
        ix = numpy.random.RandomState(sub % 997).permutation(len(X))
        Xin.index = ix
        yin = pandas.Series(y, index=ix)
        cfg["index"] = "permuted"
    try:
        r = m.fit(Xin, yin) if w is None else m.fit(Xin, yin, sample_weight=w)
    except Exception as e:
        ctx.hit("fit")
        ctx.violation(K + "fit/raised/%s" % type(e).__name__, "fit raised on binary data: %s" % str(e)[:200], cfg=cfg)
        return
    ctx.hit("fit")
    ctx.check(r is m, K + "fit/returns-not-self", "fit did not return the estimator", cfg=cfg)
    classes = list(m.classes_)
    ctx.check(classes == sorted(set(y.tolist())), K + "classes", "classes_ %r" % (classes,), cfg=cfg)
    nodes = walk(m.tree_)
    idx = [nd.index for nd, _ in nodes]
    # ---- structure
    ctx.hit("indices")
    if len(set(idx)) != len(idx):
        ctx.violation(K + "indices/duplicate", "node indices are not distinct: %r" % sorted(idx), cfg=cfg)
    if max(idx) >= m.n_nodes_ or min(idx) < 0:
        ctx.violation(K + "indices/not-below-n_nodes", "node index %d with n_nodes_=%d" % (max(idx), m.n_nodes_),
                      cfg=cfg)
    ctx.check(m.tree_.index == 0 or True, K + "root", "", cfg=cfg)
    ctx.hit("leaves")
    term = sorted(nd.index for nd, _ in nodes if nd.above is None or nd.below is None)
    try:
        got = [int(i) for i in m.get_leaves_index()]
        if got != term:
            ctx.violation(K + "leaves/get_leaves_index", "get_leaves_index=%r, terminal nodes=%r" % (got, term),
                          cfg=cfg)
    except Exception as e:
        ctx.violation(K + "leaves/raised/%s" % type(e).__name__, str(e)[:150], cfg=cfg)
    ctx.hit("depth")
    real_depth = max(dp for _, dp in nodes)
    ctx.check(m.tree_depth_ <= params["max_depth"], K + "depth/exceeds-max_depth", "tree_depth_=%d > max_depth=%d" % (
        m.tree_depth_, params["max_depth"]), cfg=cfg)
    ctx.check(real_depth <= params["max_depth"], K + "depth/exceeds-max_depth", "the tree has %d levels, max_depth=%d"
              % (real_depth, params["max_depth"]), cfg=cfg)
    ctx.check(m.tree_depth_ == real_depth, K + "depth/tree_depth-wrong", "tree_depth_=%d, levels=%d" % (
        m.tree_depth_, real_depth), cfg=cfg)
    if len(set(idx)) != len(idx) or max(idx) >= m.n_nodes_:
        return
    by_index = {nd.index: nd for nd, _ in nodes}
    parent = {}
    for nd, _ in nodes:
        for side, ch in (("above", nd.above), ("below", nd.below)):
            if ch is not None:
                parent[ch.index] = (nd.index, side)
    depth_of = {nd.index: dp for nd, dp in nodes}

    # ---- behaviour on the training rows (exact ties live here) and on new rows
    queries = [("train", X), ("new", (rng.randn(40, X.shape[1]) * 1.5).astype(X.dtype))]
    if base == "gnb" and X.dtype == numpy.float64:
        # finite rows so far away that a node classifier answers NaN for them (exp of -inf minus -inf): the path goes on
        # to the 'below' child (NaN > threshold is false), and the probabilities are those of the node that ends the path
        # (whether a node answers NaN depends on its own variances: magnitudes from 1e152 to 3e156 in steps of two, on
        # every feature, both signs - the squares cross the float64 overflow in between)
        mags = 1e152 * 2.0 ** numpy.arange(15)
        far = numpy.zeros((2 * len(mags) * X.shape[1], X.shape[1]))
        r_ = 0
        for f_ in range(X.shape[1]):
            for sg in (1.0, -1.0):
                for mg in mags:
                    far[r_, f_] = sg * mg
                    r_ += 1
        queries.append(("far-rows", far))
    if frame and X.shape[1] >= 2:
        queries.append(("reordered-columns", (rng.randn(30, X.shape[1]) * 1.5).astype(X.dtype)))
    for qname, Q in queries:
        Qin = Q
        if frame:
            # the batch as a frame whose index is a permutation of the positions
            Qin = pandas.DataFrame(Q, columns=["f%d" % i for i in range(Q.shape[1])],
                                   index=numpy.random.RandomState(sub % 991 + len(Q)).permutation(len(Q)))
        if qname == "reordered-columns":
            # a frame that carries the training names in ANOTHER order: the three methods must read it the same way.
            # The library reads columns by position; an implementation that aligned all three by name would be as
            # consistent, so that reading is accepted too
            cperm = numpy.roll(numpy.arange(Q.shape[1]), 1)
            by_name = Qin
            Qin = Qin[[Qin.columns[j] for j in cperm]]
            Q = Q[:, cperm]
            try:
                same_as_by_name = (
                    numpy.array_equal(numpy.asarray(m.predict_proba(Qin)), numpy.asarray(m.predict_proba(by_name))) and
                    numpy.array_equal(numpy.asarray(m.predict(Qin)), numpy.asarray(m.predict(by_name))) and
                    numpy.array_equal(numpy.asarray(m.decision_path(Qin).todense()),
                                      numpy.asarray(m.decision_path(by_name).todense())))
            except Exception:
                same_as_by_name = False
            ctx.hit("frame.reordered_columns")
            if same_as_by_name and not numpy.array_equal(Q, Q[:, numpy.argsort(cperm)]):
                ctx.excluded("reordered columns: all three methods align by name")
                continue
        try:
            proba = numpy.asarray(m.predict_proba(Qin), dtype=float)
            pred = numpy.asarray(m.predict(Qin))
            path = m.decision_path(Qin)
            path = numpy.asarray(path.todense())
        except Exception as e:
            ctx.violation(K + "predict/raised/%s" % type(e).__name__, "%s on %s rows: %s" % (
                type(e).__name__, qname, str(e)[:150]), cfg=cfg)
            continue
        if path.shape != (len(Q), m.n_nodes_):
            ctx.violation(K + "path/shape", "decision_path has shape %r, expected (%d, %d)" % (
                path.shape, len(Q), m.n_nodes_), cfg=cfg)
            continue
        # node probabilities, evaluated on the whole batch
        P1 = {i: numpy.asarray(nd.estimator.predict_proba(Q), dtype=float) for i, nd in by_index.items()}
        n_tie = 0
        for i in range(len(Q)):
            marked = set(numpy.where(path[i] != 0)[0].tolist())
            ctx.hit("path.chain")
            if 0 not in marked and m.tree_.index not in marked:
                ctx.violation(K + "path/root-not-marked", "the root is not marked for row %d (%s)" % (i, qname),
                              cfg=cfg)
                break
            if not marked <= set(by_index):
                ctx.violation(K + "path/unknown-node", "decision_path marks a column that is not a node: %r" % (
                    sorted(marked - set(by_index)),), cfg=cfg)
                break
            t = max(marked, key=lambda j: depth_of[j])
            chain = [t]
            while chain[-1] in parent:
                chain.append(parent[chain[-1]][0])
            if set(chain) != marked:
                ctx.violation(K + "path/not-a-chain", "marked nodes %r are not the root-to-terminal chain %r" % (
                    sorted(marked), sorted(chain)), cfg=cfg, rows=qname)
                break
            chain = chain[::-1]
            # routing of each step
            ctx.hit("path.routing")
            bad = None
            tie = False
            for a, b in zip(chain[:-1], chain[1:]):
                p1 = P1[a][i, 1]
                thr = by_index[a].threshold
                side = parent[b][1]
                if abs(p1 - thr) <= tol:
                    tie = True
                    continue
                if (p1 > thr) != (side == "above"):
                    bad = "row %d (%s): node %d has p1=%.12g vs threshold %.3g but the path goes %s" % (
                        i, qname, a, p1, thr, side)
                    break
            if bad is None:
                nd = by_index[t]
                p1 = P1[t][i, 1]
                if abs(p1 - nd.threshold) <= tol:
                    tie = True
                else:
                    nxt = nd.above if p1 > nd.threshold else nd.below
                    if nxt is not None:
                        bad = "row %d (%s): the path stops at node %d although its %s child exists (p1=%.12g)" % (
                            i, qname, t, "above" if p1 > nd.threshold else "below", p1)
            if bad:
                ctx.violation(K + "path/wrong-routing", bad, cfg=cfg)
                break
            n_tie += tie
            # predict_proba is the terminal classifier's
            ctx.hit("proba.terminal")
            if not numpy.isfinite(P1[t][i]).all():
                ctx.excluded("base-estimator-returns-nan")
            elif not numpy.allclose(proba[i], P1[t][i], rtol=0, atol=tol):
                ctx.violation(K + "proba/not-terminal-node%s" % ("/tie-row" if tie else ""),
                              "row %d (%s): predict_proba %r is not the probabilities %r of node %d ending its "
                              "decision_path" % (i, qname, proba[i].tolist(), P1[t][i].tolist(), t), cfg=cfg)
                break
        ctx.excluded("tie-row-direction-not-judged", n_tie)
        if n_tie:
            ctx.cls("rows-with-exact-tie", n_tie)
        base_ok = all(numpy.isfinite(v).all() and numpy.allclose(v.sum(axis=1), 1, rtol=0, atol=max(1e-9, tol))
                      for v in P1.values())
        if not base_ok:
            # e.g. GaussianNB on duplicated points (variance ~1e-42) returns rows [1, 1] itself
            ctx.excluded("base-estimator-rows-do-not-sum-to-one")
        elif not numpy.allclose(proba.sum(axis=1), 1, rtol=0, atol=max(1e-9, tol)):
            ctx.violation(K + "proba/rows-not-summing-to-one", "a probability row does not sum to one", cfg=cfg)
        ctx.hit("predict.threshold")
        sure = numpy.isfinite(proba[:, 1]) & (numpy.abs(proba[:, 1] - 0.5) > tol)
        exp = numpy.asarray(m.classes_)[(proba[:, 1] >= 0.5).astype(int)]
        # predict is a function of the model's own probabilities: exact, ties at 0.5 included (>= 0.5 -> classes_[1])
        badp = [j for j in range(len(Q)) if numpy.isfinite(proba[j, 1]) and pred[j] != exp[j]]
        if badp:
            tie = not sure[badp[0]]
            ctx.violation(K + "predict/not-classes-at-0.5" + ("/tie-row" if tie else ""),
                          "row %d: predict=%r but p1=%.17g and classes_=%r" % (
                              badp[0], pred[badp[0]], proba[badp[0], 1], classes), cfg=cfg)
        ctx.extra["tie_rows_at_0.5"] = ctx.extra.get("tie_rows_at_0.5", 0) + int((proba[:, 1] == 0.5).sum())
        if not set(pred.tolist()) <= set(classes):
            ctx.violation(K + "predict/label-outside-classes", "predict returned %r" % (sorted(set(pred.tolist())),),
                          cfg=cfg)
    # ---- history: a fit that validation refuses (X given as a list of rows, weights given as a list) leaves a fitted
    # object as it was: same node count, same paths, same probabilities
    if not case.get("_refit"):
        try:
            n0 = m.n_nodes_
            P0 = numpy.asarray(m.predict_proba(X[:12]), dtype=float)
            D0 = numpy.asarray(m.decision_path(X[:12]).todense())
            refused = 0
            for bad in ((lambda: m.fit(X.tolist(), y)), (lambda: m.fit(X, y, sample_weight=[1.0] * len(X))),
                        (lambda: m.fit(X, numpy.arange(len(X))))):
                try:
                    bad()
                except Exception:
                    refused += 1
            if refused == 3:
                ctx.hit("refused_fit.state_kept")
                ok_ = (m.n_nodes_ == n0 and numpy.array_equal(numpy.asarray(m.decision_path(X[:12]).todense()), D0)
                       and numpy.allclose(numpy.asarray(m.predict_proba(X[:12]), dtype=float), P0, rtol=0, atol=0,
                                          equal_nan=True))
                if not ok_:
                    ctx.violation(K + "refused-fit/fitted-state-changed", "after fits that validation refused, n_nodes_ "
                                  "(%r -> %r), decision_path or predict_proba changed" % (n0, m.n_nodes_), cfg=cfg)
            else:
                ctx.excluded("refused-fit history: one of the invalid calls was accepted")
                return
        except Exception as e:
            ctx.violation(K + "refused-fit/raised/%s" % type(e).__name__, "after fits that validation refused: %s" % (
                str(e)[:120]), cfg=cfg)
            return
    if not case.get("_refit"):
        # history on one object: query the structure, refit with the two labels swapped (a mirrored tree, often
        # with the same n_nodes_), and run every clause again on the refitted object
        try:
            m.get_leaves_index()
            m.decision_path(X[:3])
            y2 = numpy.where(y == classes[0], classes[1], classes[0])
            m.fit(Xin, y2) if w is None else m.fit(Xin, y2, sample_weight=w)
            nodes2 = walk(m.tree_)
            term2 = sorted(nd.index for nd, _ in nodes2 if nd.above is None or nd.below is None)
            ctx.hit("refit.structure")
            got2 = [int(i) for i in m.get_leaves_index()]
            if got2 != term2:
                ctx.violation(K + "leaves/get_leaves_index/after-refit", "after refitting the same object "
                              "get_leaves_index=%r, terminal nodes=%r" % (got2, term2), cfg=cfg)
            if m.tree_depth_ != max(dp for _, dp in nodes2):
                ctx.violation(K + "depth/tree_depth-wrong/after-refit", "tree_depth_ stale after refit", cfg=cfg)
            idx2 = [nd.index for nd, _ in nodes2]
            if max(idx2) >= m.n_nodes_:
                ctx.violation(K + "indices/not-below-n_nodes/after-refit", "n_nodes_ stale after refit", cfg=cfg)
            Pn = numpy.asarray(m.predict_proba(X[:10]))
            dp = numpy.asarray(m.decision_path(X[:10]).todense())
            by2 = {nd.index: nd for nd, _ in nodes2}
            dep2 = {nd.index: d_ for nd, d_ in nodes2}
            for i in range(min(10, len(X))):
                marked = set(numpy.where(dp[i] != 0)[0].tolist())
                if not marked <= set(by2):
                    ctx.violation(K + "path/unknown-node/after-refit", "decision_path after refit marks a column "
                                  "that is not a node of the new tree", cfg=cfg)
                    break
                t = max(marked, key=lambda j: dep2[j])
                pt = numpy.asarray(by2[t].estimator.predict_proba(X[:10]))[i]
                if numpy.isfinite(pt).all() and not numpy.allclose(Pn[i], pt, atol=tol, rtol=0):
                    ctx.violation(K + "proba/not-terminal-node/after-refit", "after refit predict_proba is not the "
                                  "terminal node's probabilities", cfg=cfg)
                    break
        except Exception as e:
            ctx.violation(K + "refit/raised/%s" % type(e).__name__, "refit history raised: %s" % str(e)[:150], cfg=cfg)
    if len(nodes) >= 3:
        ctx.nontriv(cfg)
    ctx.sample({"cfg": cfg, "n_nodes_": int(m.n_nodes_), "node_indices": sorted(idx), "depth": int(real_depth)})


def evaluations(counters, ncases):
    return int(counters.get("path.chain", 0))
