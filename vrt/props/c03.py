"""C03 - a fitted model depends only on parameters, the last training set and seeds.

History monitor: for every fittable registered class and configuration the same instance is fitted on A,
(optionally queried, so that lazily built caches exist), fitted on a structurally different B, and compared
with a freshly built instance fitted on B only - in every public output on a probe batch, in the *set* of
fitted attributes (a stale cache is an extra attribute) and in their values (deep structural diff).  Then
back on A.  Determinism: two fits under the same NumPy global seed agree exactly; where an integer
random_state is documented to make the estimator deterministic, changing only the global seed changes nothing.
"""
import warnings

import numpy

PROPERTY = "C03"
LEVEL = "exploration"
NEED_EXT = True
REQUIRED = ["refit.smallest_training_set", "refit.outputs", "refit.state", "same_seed.outputs", "global_seed_independence",
            "refit.after_set_params", "refit.after_failed_fit", "refit.frames", "two_instances", "hashseed.two_processes", "refit.after_interrupted_fit", "concurrent_fits"]
RULE = ("fittable registered classes (23) x configurations x training-set pairs (A, B) differing in n, d, label set / "
        "vocabulary / categorical columns x {fit A, [query], fit B, fit A} x 3 seeds (thorough 12); thread-parallel "
        "configurations included; non-trivial = A and B differ in shape or label set; distinct = distinct (class, "
        "configuration, seed, history)")
ASSUMPTIONS = ["equality is exact (same process, one BLAS/OpenMP thread); float outputs are compared with rtol 1e-12 "
               "only as a fallback and the number of non-bitwise matches is reported",
               "PermutationReciprocalTransformer(closest=True) ends in float() of a 2-D array (NumPy 2 rejects it): "
               "its lazily cached neighbour index cannot be built in this environment - recorded as unreachable",
               "ConstraintKMeans is not in the global-seed-independence clause (its docstring says random_state is "
               "'used by k-means'; _switch_clusters draws from the global generator by design)"]
CASE_TIMEOUT = 300

from vrt.props.c02 import FITTABLE  # noqa: E402

DET_RS = ["KMeansL1L2", "PiecewiseTreeRegressor", "PermutationReciprocalTransformer", "PiecewiseClassifier"]


def cases(tier, seed):
    out = []
    nseeds = 3 if tier == "quick" else 12
    for name in FITTABLE:
        for k in range(nseeds):
            out.append({"gen": "refit", "id": "refit-%s-%d" % (name, k), "cls": name, "sub": seed * 1009 + k})
    # the same seeded fit in two fresh processes that differ only in PYTHONHASHSEED
    for name in FITTABLE:
        if name not in ("PredictableTSNE",):
            out.append({"gen": "hashseed", "id": "hashseed-%s" % name, "cls": name, "sub": seed * 1009})
    return out


def run_hashseed(case, ctx):
    import json
    import os
    import subprocess
    import sys
    res = []
    for hs in ("1", "4242"):
        env = dict(os.environ, PYTHONHASHSEED=hs)
        try:
            p = subprocess.run([sys.executable, "-m", "vrt.hashseed_probe", case["cls"], str(case["sub"])],
                               cwd=os.path.dirname(os.path.dirname(os.path.dirname(os.path.abspath(__file__)))),
                               env=env, stdout=subprocess.PIPE, stderr=subprocess.PIPE, text=True, timeout=240)
        except subprocess.TimeoutExpired:
            ctx.excluded("hashseed probe timed out")
            return
        line = [l for l in p.stdout.splitlines() if l.startswith("HASHSEED-PROBE ")]
        if not line:
            ctx.excluded("hashseed probe failed: %s" % p.stderr[-200:].replace("\n", " | "))
            return
        res.append(json.loads(line[0][len("HASHSEED-PROBE "):]))
    ctx.hit("hashseed.two_processes")
    a, b = res
    bad = sorted(k for k in a if a[k] != b.get(k))
    if bad:
        ctx.violation("C03/%s/same-seed/outputs-differ/across-PYTHONHASHSEED" % case["cls"],
                      "the same data, parameters and numpy.random.seed give another model in a process started with "
                      "another PYTHONHASHSEED (variant/data %s): the fit depends on the iteration order of a set or "
                      "dict" % ", ".join(bad[:4]), cfg={"class": case["cls"], "differs": bad[:6]})
    ctx.cls("class=" + case["cls"])


def state(obj, depth=0):
    """Structural view of the fitted state of an estimator."""
    from sklearn.base import BaseEstimator
    if depth > 5:
        return "deep"
    if isinstance(obj, numpy.ndarray):
        if obj.dtype == object:
            return ("ndobj", obj.shape, tuple(state(o, depth + 1) for o in obj.ravel().tolist()))
        return ("nd", obj.shape, str(obj.dtype), obj.tobytes())
    if isinstance(obj, BaseEstimator) or (hasattr(obj, "get_params") and hasattr(obj, "__dict__")):
        d = {}
        for k, v in vars(obj).items():
            if (k.endswith("_") and not k.endswith("__")) or (k.startswith("_") and not k.startswith("__")):
                if k in ("_debug", "_sklearn_output_config", "_n_threads", "_random_state", "_stop_words_id"):
                    continue
                d[k] = state(v, depth + 1)
        return ("est", type(obj).__name__, d)
    if isinstance(obj, (list, tuple)):
        return (type(obj).__name__, tuple(state(o, depth + 1) for o in obj))
    if isinstance(obj, dict):
        return ("dict", tuple(sorted(((repr(k), state(v, depth + 1)) for k, v in obj.items()), key=lambda kv: kv[0])))
    if isinstance(obj, (int, float, str, bool, type(None), numpy.generic)):
        return repr(obj)
    if hasattr(obj, "__getstate__") and type(obj).__module__.startswith("sklearn"):
        try:
            return ("state", type(obj).__name__, state(obj.__getstate__(), depth + 1))
        except Exception:
            return ("type", type(obj).__name__)
    if hasattr(obj, "toarray"):
        return ("sparse", state(obj.toarray(), depth + 1))
    if isinstance(obj, numpy.random.RandomState):
        return ("RandomState",)
    return ("type", type(obj).__name__)


def state_diff(a, b, path="", out=None):
    out = [] if out is None else out
    if len(out) > 5:
        return out
    if isinstance(a, tuple) and isinstance(b, tuple) and len(a) == 3 and a[0] == "est" and b[0] == "est":
        if a[1] != b[1]:
            out.append("%s: %s vs %s" % (path, a[1], b[1]))
            return out
        ka, kb = set(a[2]), set(b[2])
        for k in sorted(ka - kb):
            out.append("%s.%s only after the history (stale attribute)" % (path, k))
        for k in sorted(kb - ka):
            out.append("%s.%s missing after the history" % (path, k))
        for k in sorted(ka & kb):
            state_diff(a[2][k], b[2][k], path + "." + k, out)
        return out
    if a != b:
        if isinstance(a, tuple) and isinstance(b, tuple) and len(a) == len(b) and a and a[0] == b[0] and \
                a[0] in ("list", "tuple", "dict", "state"):
            for i, (x, y) in enumerate(zip(a[1:], b[1:])):
                if x != y:
                    if isinstance(x, tuple) and isinstance(y, tuple) and len(x) == len(y):
                        for j, (p, q) in enumerate(zip(x, y)):
                            state_diff(p, q, "%s[%d]" % (path, j), out)
                    else:
                        out.append("%s differs" % path)
            return out
        out.append("%s differs" % path)
    return out


def same_out(a, b):
    from vrt.props.c01 import same_out as so
    return so(a, b)


def exact(a, b):
    a, b = numpy.asarray(a), numpy.asarray(b)
    if a.shape != b.shape:
        return False
    if a.dtype == object or b.dtype == object:
        return same_out(a, b)
    return bool(numpy.array_equal(a, b, equal_nan=a.dtype.kind == "f"))


def run_case(case, ctx):
    if case.get("gen") == "hashseed":
        return run_hashseed(case, ctx)
    from vrt import registry
    spec = registry.get(case["cls"])
    K = "C03/%s/" % spec.name
    sub = case["sub"]
    for vi in range(len(spec.variants)):
        A = spec.data(numpy.random.RandomState(sub + 1))
        B = spec.data_b(numpy.random.RandomState(sub + 2))
        if (sub + vi) % 2 and spec.kind == "xy" and not spec.no_weights and "y" in A and "y" in B:
            # non-uniform sample weights in every fit of the histories (half of the cases)
            try:
                probe_ = spec.make(vi)
                Aw = dict(A, w=numpy.random.RandomState(sub + 4).rand(len(A["y"])) * 3 + 0.2)
                numpy.random.seed(sub + 17)
                spec.fit(probe_, _copy(Aw))
                A = Aw
                B = dict(B, w=numpy.random.RandomState(sub + 5).rand(len(B["y"])) * 3 + 0.2)
                ctx.cls("weighted-histories")
            except Exception:
                pass
        # F = a fit that fails (an invalid-input class of C02 the estimator refuses), between two good ones
        from vrt.props.c02 import invalid_datasets
        try:
            bads = invalid_datasets(spec, spec.data(numpy.random.RandomState(sub + 1)))
        except Exception:
            bads = []
        def group(label):
            return "w" if "weights" in label else ("y" if label in (
                "length-mismatch", "nan-in-y", "y-none", "five-labels", "single-label") else "X")

        Fs = {}
        for g in ("X", "y", "w"):
            members = [b for b in bads if group(b[0]) == g]
            for j in range(len(members)):
                label, Dbad = members[(sub + vi + j) % len(members)]
                try:
                    probe = spec.make(vi)
                    numpy.random.seed(sub + 17)
                    spec.fit(probe, _copy(Dbad))
                except Exception:
                    Fs[g] = (label, Dbad)
                    break
        # C = other values in the shape of A (what an accumulator keyed on the shape would not notice)
        Cset = spec.data(numpy.random.RandomState(sub + 3))
        # ("a" = the set A fitted under ANOTHER global seed: what the estimator drew then must not be reused now)
        hists = [("A", "B"), ("A", "q", "B"), ("A", "B", "A"), ("B", "q", "A"), ("A", "q", "C"), ("a", "q", "A")]
        hists += [("A", "F" + g, "B") for g in sorted(Fs)] + [("F" + g, "q", "A") for g in sorted(Fs)[:1]]
        if not Fs:
            ctx.excluded("no invalid-input class is refused by this configuration")
        for hist in hists:
            F = next((Fs[h[1]] for h in hist if h[0] == "F"), None)
            hist = tuple("F" if h[0] == "F" else h for h in hist)
            cfg = {"class": spec.name, "variant": vi, "history": "".join(hist), "sub": sub}
            sets = {"A": A, "B": B, "C": Cset}
            if "F" in hist:
                cfg["failing_fit"] = F[0]
            last = [h for h in hist if h != "q"][-1]
            e = spec.make(vi)
            try:
                for h in hist:
                    if h == "q":
                        try:
                            spec.outputs(e, spec.query(numpy.random.RandomState(9), sets[cur]))
                        except Exception:
                            if "F" not in hist:
                                raise
                    elif h == "F":
                        cur = "A"
                        try:
                            numpy.random.seed(sub + 17)
                            spec.fit(e, _copy(F[1]))
                        except Exception:
                            ctx.hit("refit.after_failed_fit")
                    elif h == "a":
                        cur = "A"
                        numpy.random.seed(sub + 99)
                        spec.fit(e, _copy(sets["A"]))
                    else:
                        cur = h
                        numpy.random.seed(sub + 17)
                        spec.fit(e, _copy(sets[h]))
                fresh = spec.make(vi)
                numpy.random.seed(sub + 17)
                spec.fit(fresh, _copy(sets[last]))
                Q = spec.query(numpy.random.RandomState(9), sets[last])
                og, of = spec.outputs(e, Q), spec.outputs(fresh, Q)
            except Exception as ex:
                ctx.hit("refit.outputs")
                ctx.violation(K + "refit/raised/%s" % type(ex).__name__, "history %s raised %s: %s" % (
                    "".join(hist), type(ex).__name__, str(ex)[:150]), cfg=cfg)
                continue
            ctx.hit("refit.outputs")
            bad = [m for m in of if m not in og or not same_out(of[m], og[m])]
            if bad:
                ctx.violation(K + "refit/outputs-differ-from-fresh-fit", "after the history %s, %s differs from a "
                              "freshly built instance fitted on the last set only" % ("".join(hist), bad[0]), cfg=cfg)
            ctx.extra.setdefault("not_bitwise", 0)
            ctx.extra["not_bitwise"] += sum(1 for m in of if m in og and not exact(of[m], og[m]))
            ctx.hit("refit.state")
            d = state_diff(state(e), state(fresh))
            if d:
                stale = [x for x in d if "stale attribute" in x]
                ctx.violation(K + "refit/state-differs/%s" % ("stale-attribute" if stale else "values"),
                              "after the history %s the fitted state differs from a fresh fit: %s" % (
                                  "".join(hist), "; ".join(d[:3])), cfg=cfg)
            if _differ(A, B):
                ctx.nontriv(spec.name, vi, hist, sub)
        # ---- history: a fit interrupted by the user (KeyboardInterrupt injected at a call site of the fit - not an
        # Exception, so `except Exception` clean-ups do not run), then a complete fit on other data
        if sub % 3 == 0:
            try:
                from vrt import failpoints
                probe = spec.make(vi)
                numpy.random.seed(sub + 17)
                res_, sites_, hits_ = failpoints.census(lambda: spec.fit(probe, _copy(A)))
                keys_ = sorted(sites_)
            except Exception:
                keys_ = []
            modfile = type(spec.make(vi)).__module__.rsplit(".", 1)[-1] + ".py"
            own = [k_ for k_ in keys_ if k_[0].endswith(modfile)]
            rest = [k_ for k_ in keys_ if k_ not in own]
            for site in own[:4] + rest[:: max(1, len(rest) // 2)][:2]:
                cfg = {"class": spec.name, "variant": vi, "history": "A interrupted at %s:%s, then B" % (
                    site[0].rsplit("/", 1)[-1], site[1]), "sub": sub}
                e = spec.make(vi)
                try:
                    numpy.random.seed(sub + 17)
                    with failpoints.Inject(site, 1, KeyboardInterrupt):
                        spec.fit(e, _copy(A))
                    continue            # the site was not reached again
                except KeyboardInterrupt:
                    pass
                except Exception:
                    continue
                try:
                    numpy.random.seed(sub + 17)
                    spec.fit(e, _copy(B))
                    fresh = spec.make(vi)
                    numpy.random.seed(sub + 17)
                    spec.fit(fresh, _copy(B))
                    Q = spec.query(numpy.random.RandomState(9), B)
                    og, of = spec.outputs(e, Q), spec.outputs(fresh, Q)
                except Exception as ex:
                    ctx.hit("refit.after_interrupted_fit")
                    ctx.violation(K + "refit/raised-after-interrupted-fit/%s" % type(ex).__name__, "%s: %s" % (
                        cfg["history"], str(ex)[:120]), cfg=cfg)
                    continue
                ctx.hit("refit.after_interrupted_fit")
                bad = [m for m in of if m not in og or not same_out(of[m], og[m])]
                if bad:
                    ctx.violation(K + "refit/outputs-differ-from-fresh-fit/after-interrupted-fit", "%s: %s differs from "
                                  "a fresh instance fitted on B" % (cfg["history"], bad[0]), cfg=cfg)
        # ---- two instances fitted AT THE SAME TIME in two threads (same-sized training sets, yield injection in the
        # library's files): each gets the model it gets when they are fitted one after the other.  Only for
        # configurations that do not read the global generator (checked: two global seeds, same model)
        if sub % 3 == 1:
            import threading
            from vrt.sched import Perturb
            cfg = {"class": spec.name, "variant": vi, "history": "two fits in two threads", "sub": sub}
            try:
                seq = []
                if spec.name == "ConstraintKMeans":
                    raise RuntimeError("_switch_clusters draws from the global generator by design (see ASSUMPTIONS)")
                if any(k_.split("__")[-1].endswith("random_state") and v_ is None
                       for k_, v_ in spec.make(vi).get_params(deep=True).items()):
                    raise RuntimeError("an unseeded (nested) estimator draws from the global generator")
                for D_, gs in ((A, 5), (Cset, 5), (A, 99), (A, 1234), (Cset, 77)):
                    e_ = spec.make(vi)
                    numpy.random.seed(gs)
                    spec.fit(e_, _copy(D_))
                    seq.append(spec.outputs(e_, spec.query(numpy.random.RandomState(9), D_)))
                rng_free = all(exact(seq[0][m], seq[2][m]) and exact(seq[0][m], seq[3][m]) and exact(seq[1][m], seq[4][m])
                               for m in seq[0])
            except Exception:
                rng_free = False
            if not rng_free:
                ctx.excluded("concurrent fits: this configuration reads the global generator (or cannot be fitted twice)")
            else:
                for rep in range(3):
                    pair = [spec.make(vi), spec.make(vi)]
                    errs = []

                    def work(e_, D_):
                        try:
                            spec.fit(e_, _copy(D_))
                        except BaseException as ex_:   # noqa: B036
                            errs.append(ex_)

                    numpy.random.seed(5)
                    with Perturb(_library_files(), seed=sub * 13 + rep, prob=0.4, max_us=300) as pt:
                        ts = [threading.Thread(target=work, args=(pair[0], A)),
                              threading.Thread(target=work, args=(pair[1], Cset))]
                        [t.start() for t in ts]
                        [t.join(120) for t in ts]
                    ctx.hit("concurrent_fits")
                    ctx.extra["yields"] = ctx.extra.get("yields", 0) + pt.yields
                    if errs or any(t.is_alive() for t in ts):
                        ctx.violation(K + "concurrent-fits/raised/%s" % (type(errs[0]).__name__ if errs else "hang"),
                                      "two instances fitted in two threads: %s" % (str(errs[0])[:120] if errs else
                                                                                    "a thread did not finish"), cfg=cfg)
                        break
                    got = [spec.outputs(pair[0], spec.query(numpy.random.RandomState(9), A)),
                           spec.outputs(pair[1], spec.query(numpy.random.RandomState(9), Cset))]
                    bad = [m for j in (0, 1) for m in seq[j] if m not in got[j] or not same_out(seq[j][m], got[j][m])]
                    if bad:
                        ctx.violation(K + "concurrent-fits/outputs-differ", "two instances fitted at the same time in two "
                                      "threads give another %s than when fitted one after the other: state is shared "
                                      "between instances" % bad[0], cfg=cfg)
                        break
        # ---- two instances: fitting the second one (other data) changes nothing of what the first one answers
        cfg = {"class": spec.name, "variant": vi, "history": "e1.fit(A); e2.fit(B); e1 again", "sub": sub}
        try:
            e1, e2 = spec.make(vi), spec.make(vi)
            numpy.random.seed(sub + 17)
            spec.fit(e1, _copy(A))
            QA = spec.query(numpy.random.RandomState(9), A)
            o1, s1 = spec.outputs(e1, QA), state(e1)
            numpy.random.seed(sub + 18)
            spec.fit(e2, _copy(B))
            spec.outputs(e2, spec.query(numpy.random.RandomState(9), B))
            o1b, s1b = spec.outputs(e1, QA), state(e1)
            # ... and neither does refitting a SHALLOW copy of the first one on other values of the same shape (fit
            # binds new arrays, it does not write into the ones a copy shares)
            import copy as _copymod
            try:
                if any(hasattr(v_, "get_params") or (isinstance(v_, list) and v_ and hasattr(v_[0], "get_params"))
                       for v_ in e1.get_params(deep=False).values()):
                    # a wrapper that fits the estimator object it was given in place shares it with its shallow copy
                    raise RuntimeError("estimator-valued parameter")
                e3 = _copymod.copy(e1)
                numpy.random.seed(sub + 19)
                spec.fit(e3, _copy(Cset if "w" not in A else dict(Cset, w=A["w"])))
                o1c = spec.outputs(e1, QA)
                ctx.hit("two_instances.shallow_copy")
                badc = [m for m in o1 if m not in o1c or not exact(o1[m], o1c[m])]
                if badc:
                    ctx.violation(K + "two-instances/first-changed-by-refit-of-shallow-copy", "refitting copy.copy(model) on "
                                  "other data of the same shape changed %s of the model itself: fit wrote into an array "
                                  "the two share" % badc[0], cfg=cfg)
            except Exception:
                ctx.excluded("shallow copy cannot be refitted")
            ctx.hit("two_instances")
            bad = [m for m in o1 if m not in o1b or not exact(o1[m], o1b[m])]
            if bad:
                ctx.violation(K + "two-instances/first-changed-by-second-fit", "fitting a second instance on other "
                              "data changed %s of the first instance" % bad[0], cfg=cfg)
            elif state_diff(s1b, s1):
                ctx.violation(K + "two-instances/first-state-changed-by-second-fit", "fitting a second instance "
                              "changed the fitted state of the first: %s" % "; ".join(state_diff(s1b, s1)[:2]), cfg=cfg)
        except Exception as ex:
            ctx.violation(K + "two-instances/raised/%s" % type(ex).__name__, str(ex)[:150], cfg=cfg)
        # ---- a hyper-parameter changed between two fits: nothing of the first configuration survives
        from vrt.props.c01 import alt_value
        keys = sorted(spec.alts)
        for key in (keys[(sub + j) % len(keys)] for j in range(min(3, len(keys)))) if keys else ():
            e = spec.make(vi)
            try:
                cur = e.get_params(deep=True).get(key, None)
                if key not in e.get_params(deep=True):
                    continue
                val, ok = alt_value(spec, key, cur, None, e)
                if not ok:
                    continue
                val2, _ = alt_value(spec, key, cur, None, spec.make(vi))
            except Exception:
                continue
            cfg = {"class": spec.name, "variant": vi, "history": "A,set_params(%s),B" % key, "sub": sub}
            try:
                fresh = spec.make(vi)
                fresh.set_params(**{key: val2})
                numpy.random.seed(sub + 17)
                spec.fit(fresh, _copy(B))
            except Exception:
                ctx.excluded("set_params history: this alternative value cannot be fitted")
                continue
            try:
                numpy.random.seed(sub + 17)
                spec.fit(e, _copy(A))
                spec.outputs(e, spec.query(numpy.random.RandomState(9), A))
                e.set_params(**{key: val})
                numpy.random.seed(sub + 17)
                spec.fit(e, _copy(B))
                Q = spec.query(numpy.random.RandomState(9), B)
                og, of = spec.outputs(e, Q), spec.outputs(fresh, Q)
            except Exception as ex:
                ctx.hit("refit.after_set_params")
                ctx.violation(K + "refit/raised-after-set_params/%s" % type(ex).__name__,
                              "fit A, set_params(%s=...), fit B raised %s: %s (a fresh instance with that value fits "
                              "B)" % (key, type(ex).__name__, str(ex)[:120]), cfg=cfg)
                continue
            ctx.hit("refit.after_set_params")
            bad = [m for m in of if m not in og or not same_out(of[m], og[m])]
            if bad:
                ctx.violation(K + "refit/outputs-differ-after-set_params", "after fit A, set_params(%s=...), fit B, %s "
                              "differs from a fresh instance built with that value and fitted on B" % (key, bad[0]),
                              cfg=cfg)
            else:
                d = state_diff(state(e), state(fresh))
                stale = [x for x in d if "stale attribute" in x]
                # only public fitted attributes (name_) are judged: private ones (_n_init, _algorithm, ...) are
                # scikit-learn's own bookkeeping of the parent KMeans
                private = [x for x in stale if x.split(" ")[0].rsplit(".", 1)[-1].startswith("_")]
                if private:
                    ctx.excluded("private attribute of the parent class left by the previous configuration")
                stale = [x for x in stale if x not in private]
                if stale:
                    ctx.violation(K + "refit/state-differs/stale-attribute-after-set_params",
                                  "after fit A, set_params(%s=...), fit B the object still carries %s" % (
                                      key, "; ".join(stale[:2])), cfg=cfg)
        # ---- the smallest training set a fresh instance accepts: after a fit on A (and, for each alternative value, a
        # set_params in between) the same instance accepts it too and gives the same model - requirements learnt from
        # the previous fit (a context length, a number of clusters, a width) must not be applied to the next one
        for key in [None] + (keys if spec.kind == "ts" else [keys[(sub + j) % len(keys)] for j in range(min(2, len(keys)))]):
            try:
                e = spec.make(vi)
                upd = {}
                if key is not None:
                    cur = e.get_params(deep=True).get(key, None)
                    if key not in e.get_params(deep=True):
                        continue
                    val, ok = alt_value(spec, key, cur, None, e)
                    val2, _ = alt_value(spec, key, cur, None, spec.make(vi))
                    if not ok:
                        continue
                    upd, upd2 = {key: val}, {key: val2}
                else:
                    upd2 = {}
            except Exception:
                continue
            small, fresh = None, None
            for k_rows in range(1, 13):
                Bk = _head(B, k_rows)
                if Bk is None:
                    break
                try:
                    fr_ = spec.make(vi)
                    fr_.set_params(**upd2)
                    numpy.random.seed(sub + 23)
                    with warnings.catch_warnings():
                        warnings.simplefilter("ignore")
                        spec.fit(fr_, _copy(Bk))
                        Qk = spec.query(numpy.random.RandomState(9), Bk)
                        of = spec.outputs(fr_, Qk)
                    small, fresh = Bk, fr_
                    break
                except Exception:
                    continue
            if small is None:
                ctx.excluded("smallest-training-set history: no head of B of 1-12 rows is accepted")
                continue
            cfg = {"class": spec.name, "variant": vi, "sub": sub, "rows_of_B": k_rows,
                   "history": "A,%sB[:%d]" % ("" if key is None else "set_params(%s)," % key, k_rows)}
            try:
                numpy.random.seed(sub + 23)
                with warnings.catch_warnings():
                    warnings.simplefilter("ignore")
                    spec.fit(e, _copy(A))
                    if upd:
                        e.set_params(**upd)
                    numpy.random.seed(sub + 23)
                    spec.fit(e, _copy(small))
                    og = spec.outputs(e, Qk)
            except Exception as ex:
                ctx.hit("refit.smallest_training_set")
                ctx.violation(K + "refit/raised-on-smallest-training-set/%s" % type(ex).__name__,
                              "fit A, %sfit on the first %d rows of B raised %s: %s (a fresh instance accepts these rows)" % (
                                  "" if key is None else "set_params(%s=...), " % key, k_rows, type(ex).__name__,
                                  str(ex)[:120]), cfg=cfg)
                continue
            ctx.hit("refit.smallest_training_set")
            bad = [m for m in of if m not in og or not same_out(of[m], og[m])]
            if bad:
                ctx.violation(K + "refit/outputs-differ-on-smallest-training-set", "after fit A the fit on the first %d rows "
                              "of B gives another %s than a fresh instance" % (k_rows, bad[0]), cfg=cfg)
        # ---- the same two histories with DataFrames whose column names differ between A and B: what scikit-learn
        # records about the columns (feature_names_in_, n_features_in_) is fitted state as well
        fr = _frames(spec, A, B)
        for key in ([None] + [keys[(sub + j) % len(keys)] for j in range(min(2, len(keys)))]) if fr else ():
            Af, Bf = fr
            cfg = {"class": spec.name, "variant": vi, "container": "DataFrame", "sub": sub,
                   "history": "A,B" if key is None else "A,set_params(%s),B" % key}
            try:
                e, fresh = spec.make(vi), spec.make(vi)
                if key is not None:
                    if key not in e.get_params(deep=True):
                        continue
                    val, ok = alt_value(spec, key, e.get_params(deep=True)[key], None, e)
                    val2, _ = alt_value(spec, key, e.get_params(deep=True)[key], None, fresh)
                    if not ok:
                        continue
                    fresh.set_params(**{key: val2})
                numpy.random.seed(sub + 17)
                spec.fit(fresh, _copy(Bf))
                Qf = _fquery(spec, Bf)
                of = spec.outputs(fresh, Qf)
                probe = spec.make(vi)
                numpy.random.seed(sub + 17)
                spec.fit(probe, _copy(Af))
                spec.outputs(probe, _fquery(spec, Af))
            except Exception:
                ctx.excluded("frame history: this configuration cannot be fitted on / queried with a DataFrame")
                continue
            try:
                numpy.random.seed(sub + 17)
                spec.fit(e, _copy(Af))
                spec.outputs(e, _fquery(spec, Af))
                if key is not None:
                    e.set_params(**{key: val})
                numpy.random.seed(sub + 17)
                spec.fit(e, _copy(Bf))
                og = spec.outputs(e, Qf)
            except Exception as ex:
                ctx.hit("refit.frames")
                ctx.violation(K + "refit/raised/%s/frames%s" % (type(ex).__name__, "/after-set_params" if key else ""),
                              "DataFrames, history %s raised %s: %s (a fresh instance fits and answers)" % (
                                  cfg["history"], type(ex).__name__, str(ex)[:120]), cfg=cfg)
                continue
            ctx.hit("refit.frames")
            bad = [m for m in of if m not in og or not same_out(of[m], og[m])]
            if bad:
                ctx.violation(K + "refit/outputs-differ-from-fresh-fit/frames", "DataFrames, history %s: %s differs from a "
                              "fresh instance fitted on B" % (cfg["history"], bad[0]), cfg=cfg)
                continue
            d = [x for x in state_diff(state(e), state(fresh)) if "stale attribute" in x
                 and not x.split(" ")[0].rsplit(".", 1)[-1].startswith("_")]
            if d:
                ctx.violation(K + "refit/state-differs/stale-attribute/frames", "DataFrames, history %s: the object still "
                              "carries %s" % (cfg["history"], "; ".join(d[:2])), cfg=cfg)
        # ---- determinism under the same global seed
        cfg = {"class": spec.name, "variant": vi, "sub": sub}
        try:
            outs = []
            p0 = spec.make(vi).get_params()
            threaded = any(k.split("__")[-1] == "n_jobs" and v not in (None, 1) for k, v in p0.items())
            for rep in range(6 if threaded else 2):
                e = spec.make(vi)
                numpy.random.seed(sub + 23)
                if threaded and rep > 0:
                    # thread-parallel fit: perturb the schedule (yield injection in the worker threads)
                    from vrt.sched import Perturb
                    with Perturb(("interval_regressor.py", "piecewise_estimator.py"), seed=sub * 7 + rep, prob=0.5,
                                 max_us=400) as pt:
                        spec.fit(e, _copy(A))
                    ctx.hit("same_seed.perturbed_schedules")
                    ctx.extra["yields"] = ctx.extra.get("yields", 0) + pt.yields
                else:
                    spec.fit(e, _copy(A))
                outs.append((spec.outputs(e, spec.query(numpy.random.RandomState(9), A)), state(e)))
            for o in outs[2:]:
                if any(not exact(outs[0][0][m], o[0][m]) for m in outs[0][0]) or state_diff(outs[0][1], o[1]):
                    outs[1] = o
                    break
        except Exception as ex:
            ctx.violation(K + "same-seed/raised/%s" % type(ex).__name__, str(ex)[:150], cfg=cfg)
            continue
        # ---- and a fit under the poisoned allocator (vrt/poison.py): a fitted model does not depend on what the
        # buffers obtained from numpy.empty contained
        try:
            from vrt.poison import Poison
            from vrt.props.c04 import EXTRA_MODULES
            mods = sorted({k.__module__ for k in type(e).__mro__ if k.__module__.startswith("mlinsights")}
                          | set(EXTRA_MODULES.get(spec.name, ())))
            if not threaded:
                ep = spec.make(vi)
                numpy.random.seed(sub + 23)
                with Poison(mods) as pz:
                    spec.fit(ep, _copy(A))
                    op = spec.outputs(ep, spec.query(numpy.random.RandomState(9), A))
                ctx.hit("same_seed.poisoned_allocator")
                ctx.extra["poisoned_buffers"] = ctx.extra.get("poisoned_buffers", 0) + pz.allocations
                badp = [m for m in outs[0][0] if m not in op or not exact(outs[0][0][m], op[m])]
                if badp:
                    ctx.violation(K + "fit/reads-uninitialised-memory", "a fit under the poisoned allocator gives "
                                  "another %s than the same fit with the ordinary allocator: a buffer is read before "
                                  "it is written" % badp[0], cfg=cfg)
        except Exception as ex:
            ctx.violation(K + "poisoned-allocator/raised/%s" % type(ex).__name__, str(ex)[:150], cfg=cfg)
        ctx.hit("same_seed.outputs")
        bad = [m for m in outs[0][0] if not exact(outs[0][0][m], outs[1][0][m])]
        threads = any(k.split("__")[-1] == "n_jobs" and v not in (None, 1) for k, v in e.get_params().items())
        if bad:
            ctx.violation(K + "same-seed/outputs-differ%s" % ("/threads" if threads else ""),
                          "two fits with identical data, parameters and numpy.random.seed differ in %s" % bad[0],
                          cfg=cfg)
        elif state_diff(outs[0][1], outs[1][1]):
            ctx.violation(K + "same-seed/state-differs%s" % ("/threads" if threads else ""),
                          "two identical seeded fits differ in fitted state: %s" % "; ".join(
                              state_diff(outs[0][1], outs[1][1])[:3]), cfg=cfg)
        # ---- an integer random_state makes the result independent of the global seed
        if spec.name in DET_RS:
            p = spec.make(vi).get_params()
            unseeded = [k for k, v in p.items() if k.split("__")[-1] == "random_state" and v is None]
            if unseeded:
                ctx.excluded("global-seed clause: a nested estimator (%s) is itself unseeded" % unseeded[0])
            elif isinstance(p.get("random_state"), (int, numpy.integer)):
                res = []
                for gs in (1, 2, 12345):
                    e = spec.make(vi)
                    numpy.random.seed(gs)
                    spec.fit(e, _copy(A))
                    res.append(spec.outputs(e, spec.query(numpy.random.RandomState(9), A)))
                ctx.hit("global_seed_independence")
                for r in res[1:]:
                    bad = [m for m in res[0] if not exact(res[0][m], r[m])]
                    if bad:
                        ctx.violation(K + "global-seed-dependence", "with random_state=%r the result (%s) depends on "
                                      "numpy's global seed" % (p["random_state"], bad[0]), cfg=cfg)
                        break
    ctx.cls("class=" + spec.name)
    ctx.sample({"class": spec.name, "sub": sub})


_LIBFILES = []


def _library_files():
    """every source file of the library (yield injection matches on the end of the file name)"""
    if not _LIBFILES:
        import glob
        import os
        from vrt import boot
        root = os.path.join(os.path.realpath(boot.REPO), "mlinsights")
        _LIBFILES.extend(sorted({os.sep + os.path.relpath(f, os.path.dirname(root))
                                 for f in glob.glob(os.path.join(root, "**", "*.py"), recursive=True)}))
    return tuple(_LIBFILES)


def _frames(spec, A, B):
    import pandas
    if spec.kind != "xy" or not all(isinstance(D["X"], numpy.ndarray) and D["X"].ndim == 2 for D in (A, B)):
        return None

    def wrap(D, pre):
        return dict(D, X=pandas.DataFrame(D["X"], columns=["%s%d" % (pre, j) for j in range(D["X"].shape[1])]))
    return wrap(A, "a"), wrap(B, "b")


def _fquery(spec, D):
    import pandas
    Q = spec.query(numpy.random.RandomState(9), dict(D, X=D["X"].to_numpy()))
    if isinstance(Q, numpy.ndarray) and Q.ndim == 2 and Q.shape[1] == D["X"].shape[1]:
        return pandas.DataFrame(Q, columns=D["X"].columns)
    return Q


def _head(D, k):
    """the first k rows / documents of every component of a data set (None when it has fewer)"""
    out = {}
    for name, v in D.items():
        if v is None:
            out[name] = None
        elif hasattr(v, "iloc"):
            if len(v) < k:
                return None
            out[name] = v.iloc[:k].copy()
        elif isinstance(v, (numpy.ndarray, list, tuple)):
            if len(v) < k:
                return None
            out[name] = v[:k].copy() if isinstance(v, numpy.ndarray) else list(v[:k])
        else:
            out[name] = v
    return out


def _copy(D):
    return {k: (v.copy() if hasattr(v, "copy") else (list(v) if isinstance(v, list) else v)) for k, v in D.items()}


def _differ(A, B):
    import pandas
    xa, xb = A["X"], B["X"]
    if isinstance(xa, numpy.ndarray):
        return xa.shape != xb.shape or ("y" in A and set(numpy.unique(A["y"]).tolist()) != set(
            numpy.unique(B["y"]).tolist()))
    if isinstance(xa, pandas.DataFrame):
        return list(xa.columns) != list(xb.columns) or len(xa) != len(xb)
    return len(xa) != len(xb)


def summarize(extras, counters):
    return {"outputs_equal_but_not_bitwise": int(sum(e.get("not_bitwise", 0) for e in extras)),
            "yield_injections_in_threaded_fits": int(sum(e.get("yields", 0) for e in extras))}


def evaluations(counters, ncases):
    return int(counters.get("refit.outputs", 0) + counters.get("same_seed.outputs", 0)
               + counters.get("global_seed_independence", 0))
