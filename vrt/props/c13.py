"""C13 - target transformations are undone exactly by their reciprocal.

Monitors:
  fct.roundtrip      inv(f(y)) == y for every predefined name (independent function table), NaN stays NaN,
                     X returned untouched (identity and bytes)
  perm.roundtrip     inverse permutation restores labels (ints, negative ints, strings, floats with NaN)
                     and probability columns, for every random_state in the sweep
  regressor          a recording regressor proves TransformedTargetRegressor2 trains on g(y) with the
                     caller's X and weights, and predict == g^-1(regressor_.predict) (independent table)
  classifier         TransformedTargetClassifier2 vs the plain classifier for equivariant learners;
                     classes_[j] is the label of probability column j
"""
import numpy

PROPERTY = "C13"
LEVEL = "exploration"
NEED_EXT = True
REQUIRED = ["fct.roundtrip", "perm.roundtrip.labels", "perm.roundtrip.proba", "perm.roundtrip.of_the_inverse", "regressor.trained_on_g",
            "regressor.predict_inverse", "regressor.history", "classifier.labels", "classifier.proba", "classifier.classes_columns"]
RULE = ("all predefined names x generated targets in their domain (NaN, 1-D/column) ; label sets (ints, negative "
        "ints, '<U' strings, object strings, 2-6 classes) x every random_state 0-23 (thorough 0-79) x three "
        "learners; non-trivial = non-identity permutation of >= 3 classes, or a function round trip with NaN; "
        "distinct = distinct (generator, parameters)")
ASSUMPTIONS = [
    "equivariant learners: GaussianNB, DecisionTreeClassifier(random_state=0), LogisticRegression; rows whose "
    "top-two probability margin is below the learner's tolerance are excluded from label comparison and counted",
    "PermutationReciprocalTransformer(closest=True) (the regressor's 'permute') ends in float() of a 2-D array, "
    "rejected by NumPy 2: unreachable in this environment, not judged",
    "the forward permutation of probability columns is defined for labels 0..k-1 only (new_perm is indexed by "
    "column number); the proba round trip is checked on such label sets",
]

F = {
    "log": (numpy.log, numpy.exp, "pos"),
    "exp": (numpy.exp, numpy.log, "real"),
    "log(1+x)": (lambda x: numpy.log(1 + x), lambda x: numpy.exp(x) - 1, "gt-1"),
    "log1p": (numpy.log1p, numpy.expm1, "gt-1"),
    "exp(x)-1": (lambda x: numpy.exp(x) - 1, lambda x: numpy.log(1 + x), "real"),
    "expm1": (numpy.expm1, numpy.log1p, "real"),
}


def cases(tier, seed):
    out = []
    nrep = 6 if tier == "quick" else 60
    for name in F:
        for k in range(nrep):
            out.append({"gen": "fct", "id": "fct-%s-%d" % (name, k), "name": name, "sub": seed * 7919 + k})
    rs = range(24) if tier == "quick" else range(80)
    for r in rs:
        out.append({"gen": "perm", "id": "perm-rs%d" % r, "rs": r, "sub": seed * 7919 + r})
        out.append({"gen": "clf", "id": "clf-rs%d" % r, "rs": r, "sub": seed * 7919 + r})
    for name in F:
        for k in range(3 if tier == "quick" else 25):
            out.append({"gen": "reg", "id": "reg-%s-%d" % (name, k), "name": name, "sub": seed * 7919 + k})
    return out


def domain(rng, kind, n):
    if kind == "pos":
        return numpy.exp(rng.uniform(-5, 5, n))
    if kind == "gt-1":
        return numpy.exp(rng.uniform(-5, 4, n)) - 1 + 1e-6
    return rng.uniform(-8, 8, n)


def run_fct(case, ctx):
    from mlinsights.mlmodel.sklearn_transform_inv_fct import FunctionReciprocalTransformer
    name = case["name"]
    f, finv, kind = F[name]
    rng = numpy.random.RandomState(case["sub"] % (2 ** 31) + len(name))
    n = int(rng.randint(1, 40))
    y = domain(rng, kind, n)
    tiny = name in ("log1p", "expm1") and case["sub"] % 3 == 0
    if tiny:
        # targets far below 1e-8: what the accurate NumPy functions behind these two names are for; every slack
        # below is relative to this magnitude
        y = rng.uniform(0.5, 2.0, n) * 10.0 ** (-rng.randint(9, 21, n).astype(float))
        ctx.cls("tiny-targets")
    mag = float(numpy.min(numpy.abs(y))) if tiny else 1.0
    if not tiny and case["sub"] % 3 == 1:
        # the far end of the domain: exponents up to just below the float64 overflow (exp(709.78) = max double),
        # arguments of the logarithms up to 1.7e308
        if kind == "real":
            y = rng.uniform(690.0, 709.7, n)
        else:
            y = 10.0 ** rng.uniform(300.0, 308.2, n)
        ctx.cls("far-end-of-the-domain")
    if n > 2:
        y[rng.randint(n)] = numpy.nan
    shape = ["1d", "column"][case["sub"] % 2]
    if shape == "column":
        y = y.reshape(-1, 1)
    X = rng.randn(n, 2)
    Xk = X.copy()
    cfg = {"name": name, "n": n, "shape": shape, "sub": case["sub"]}
    ctx.cls("fct=" + name)
    if name not in FunctionReciprocalTransformer.available_fcts():
        ctx.violation("C13/fct/name-missing", "predefined name %r disappeared" % name, cfg=cfg)
        return
    t = FunctionReciprocalTransformer(name)
    r = t.fit(X, y)
    ctx.check(r is t, "C13/fct/fit-returns-not-self", "fit did not return the transformer", cfg=cfg)
    X1, y1 = t.transform(X, y)
    inv = t.get_fct_inv()
    X2, y2 = inv.transform(X1, y1)
    ctx.hit("fct.roundtrip")
    with numpy.errstate(all="ignore"):
        exp1 = f(y)
    ok_f = numpy.allclose(y1, exp1, rtol=1e-9, atol=1e-12 * mag, equal_nan=True)
    ctx.check(ok_f, "C13/fct/forward-differs", "transform(%s) is not the function of that name" % name, cfg=cfg,
              got=y1.ravel()[:4], expected=exp1.ravel()[:4])
    nan_in = numpy.isnan(y)
    ctx.check(bool((numpy.isnan(y2) == nan_in).all()), "C13/fct/nan-not-preserved", "NaN pattern changed",
              cfg=cfg)
    # absolute error of exp(log(.)) style round trips grows like |y| * eps * condition; 1e-9 relative is ample
    good = numpy.allclose(y2[~nan_in], y[~nan_in], rtol=1e-9, atol=1e-12 * mag)
    if not good:
        i = int(numpy.argmax(numpy.abs(y2[~nan_in] - y[~nan_in])))
        ctx.violation("C13/fct/roundtrip/%s" % name, "reciprocal of %r does not undo it: %r -> %r -> %r" % (
            name, y[~nan_in][i], y1[~nan_in][i], y2[~nan_in][i]), cfg=cfg)
    ctx.check(X1 is X and X2 is X and numpy.array_equal(X, Xk), "C13/fct/X-touched",
              "features not returned untouched", cfg=cfg)
    ctx.check(y2.shape == y.shape, "C13/fct/shape", "shape %r -> %r" % (y.shape, y2.shape), cfg=cfg)
    # the hyper-parameter is changed WITHOUT a refit: transform and the transformer returned by get_fct_inv still form
    # a pair (whichever function of the two they apply, one undoes the other)
    other_name = [nm for nm in F if nm != name and F[nm][2] == kind]
    if other_name and not tiny:
        try:
            t.set_params(fct=other_name[case["sub"] % len(other_name)])
            _, yh1 = t.transform(X, y)
            _, yh2 = t.get_fct_inv().transform(X, yh1)
            ctx.hit("fct.roundtrip.after_set_params_without_refit")
            ok_h = numpy.allclose(numpy.asarray(yh2)[~nan_in], y[~nan_in], rtol=1e-9, atol=1e-12 * mag)
            ctx.check(ok_h, "C13/fct/roundtrip/after-set_params-without-refit", "fit(%r), set_params(fct=%r) without a refit: "
                      "transform followed by get_fct_inv().transform does not give the targets back" % (
                          name, t.get_params()["fct"]), cfg=cfg)
            t.set_params(fct=name)
        except Exception as e:
            ctx.violation("C13/fct/raised/%s/after-set_params-without-refit" % type(e).__name__, str(e)[:120], cfg=cfg)
    # y None
    Xn, yn = t.transform(X, None)
    ctx.check(Xn is X and yn is None, "C13/fct/y-none", "transform(X, None) must return (X, None)", cfg=cfg)
    # callables
    tc = FunctionReciprocalTransformer(f, finv).fit()
    _, yc = tc.transform(X, y)
    _, yc2 = tc.get_fct_inv().transform(X, yc)
    ctx.check(numpy.allclose(yc2[~nan_in], y[~nan_in], rtol=1e-9, atol=1e-12 * mag), "C13/fct/callable-roundtrip",
              "callable pair round trip failed", cfg=cfg)
    if nan_in.any():
        ctx.nontriv(cfg)
    ctx.sample({"cfg": cfg, "y": y.ravel()[:3], "f(y)": y1.ravel()[:3], "inv(f(y))": y2.ravel()[:3]})


LABELSETS = [
    ("int-0..k-1", lambda k: numpy.arange(k)),
    ("int-sparse", lambda k: numpy.array([3, 5, 7, 11, 20, 21][:k])),
    ("int-negative", lambda k: numpy.array([-4, -1, 0, 2, 9, 10][:k])),
    ("str-U", lambda k: numpy.array(["u", "v", "w", "x", "y", "z"][:k])),
    ("str-object", lambda k: numpy.array(["bb", "a", "cc", "dd", "e", "ff"][:k], dtype=object)),
    ("str-unequal-length", lambda k: numpy.array(["no", "yes", "perhaps", "a", "absolutely", "x"][:k])),
    # identifiers that need 64 bits next to small ones
    ("int-wide", lambda k: numpy.array([3000000000, -3000000000, 7, 2 ** 40, 0, 5][:k], dtype=numpy.int64)),
]


def run_perm(case, ctx):
    from mlinsights.mlmodel.sklearn_transform_inv_fct import PermutationReciprocalTransformer
    rs = case["rs"]
    rng = numpy.random.RandomState(case["sub"] % (2 ** 31))
    fl = [0.5, 1.5, 2.5, 3.5, 4.5, 5.5]
    for lname, mk in LABELSETS + [("float-nan", lambda k: numpy.array(fl[:k])),
                                  ("float32-nan", lambda k: numpy.array(fl[:k], dtype=numpy.float32)),
                                  ("float16-nan", lambda k: numpy.array(fl[:k], dtype=numpy.float16))]:
        for k in (2, 3, 4, 6):
            labels = mk(k)
            n = int(rng.randint(k, 30))
            y = labels[numpy.concatenate([numpy.arange(k), rng.randint(0, k, n - k)])]
            rng.shuffle(y)
            if lname.endswith("-nan"):
                y = y.copy()
                y[rng.randint(n)] = numpy.nan
            cfg = {"labels": lname, "k": k, "random_state": rs, "n": n}
            ctx.cls("labels=" + lname)
            t = PermutationReciprocalTransformer(random_state=rs)
            try:
                r = t.fit(None, y)
                _, y1 = t.transform(None, y)
                inv = t.get_fct_inv()
                _, y2 = inv.transform(None, y1)
            except Exception as e:
                ctx.hit("perm.roundtrip.labels")
                ctx.violation("C13/perm/raised/%s/%s" % (lname, type(e).__name__),
                              "%s: %s" % (type(e).__name__, str(e)[:200]), cfg=cfg)
                continue
            ctx.hit("perm.roundtrip.labels")
            ctx.check(r is t, "C13/perm/fit-returns-not-self", "fit did not return the transformer", cfg=cfg)
            if lname.endswith("-nan"):
                same = numpy.array_equal(numpy.asarray(y2, dtype=float), y.astype(float), equal_nan=True)
            else:
                same = len(y2) == len(y) and all(a == b for a, b in zip(y2.tolist(), y.tolist()))
            ctx.check(same, "C13/perm/label-roundtrip", "inverse permutation does not restore the labels",
                      cfg=cfg, y=y[:6], permuted=y1[:6], back=y2[:6])
            # the codes held in a narrower integer type (they are 0..k-1: int8 is enough for them) come back as the labels,
            # whatever width the labels need
            if y.dtype.kind in "iu":
                for dtn in ("int8", "int16", "int32", "uint8"):
                    try:
                        _, yb_ = inv.transform(None, numpy.asarray(y1).astype(dtn))
                        ctx.hit("perm.roundtrip.narrow_codes")
                        if len(yb_) != len(y) or not all(int(a) == int(b) for a, b in zip(numpy.asarray(yb_).tolist(), y.tolist())):
                            ctx.violation("C13/perm/label-roundtrip/codes-held-as-%s" % dtn, "codes stored as %s are not mapped "
                                          "back to the labels: %r instead of %r" % (
                                              dtn, numpy.asarray(yb_)[:4].tolist(), y[:4].tolist()), cfg=cfg)
                            break
                    except Exception as e:
                        ctx.violation("C13/perm/raised/%s/codes-held-as-%s/%s" % (lname, dtn, type(e).__name__), str(e)[:120],
                                      cfg=cfg)
                        break
            # the inverse is a reciprocal transformer with a fitted permutation too: ITS reciprocal undoes it
            # (codes -> labels -> codes)
            try:
                _, y3 = inv.get_fct_inv().transform(None, y2)
                ctx.hit("perm.roundtrip.of_the_inverse")
                if lname.endswith("-nan"):
                    same3 = numpy.array_equal(numpy.asarray(y3, dtype=float), numpy.asarray(y1, dtype=float),
                                              equal_nan=True)
                else:
                    same3 = len(y3) == len(y1) and all(a == b for a, b in zip(numpy.asarray(y3).tolist(),
                                                                              numpy.asarray(y1).tolist()))
                ctx.check(same3, "C13/perm/label-roundtrip/inverse-of-the-inverse", "the reciprocal of the reciprocal "
                          "does not give back the codes", cfg=cfg, codes=numpy.asarray(y1)[:6], back=numpy.asarray(y3)[:6])
            except Exception as e:
                ctx.violation("C13/perm/raised/%s/inverse-of-the-inverse/%s" % (lname, type(e).__name__), str(e)[:150],
                              cfg=cfg)
            # the permuted labels are a bijection onto 0..k-1
            vals = sorted(set(t.permutation_.values()))
            kk = len({v for v in y.tolist() if v == v})
            ctx.check(vals == list(range(kk)) and len(t.permutation_) == kk, "C13/perm/not-a-permutation",
                      "permutation_ values are %r" % (vals,), cfg=cfg)
            ident = all(t.permutation_[l] == i for i, l in enumerate(dict.fromkeys(y[~numpy.isnan(y)].tolist()
                                                                                  if lname.endswith("-nan")
                                                                                  else y.tolist())))
            if not ident and k >= 3:
                ctx.nontriv("perm", cfg)
            if y.dtype.kind in "iu" and n >= 4:
                # the same labels as a matrix of label columns, in several memory layouts (DataFrame[[a, b]].to_numpy()
                # is Fortran-ordered) and as strided 1-D views
                from vrt import layouts as _lay
                Y2 = numpy.column_stack([y, y[::-1]])
                for lay, Ym in (("C", Y2), ("fortran", numpy.asfortranarray(Y2)),
                                ("transposed-view", numpy.ascontiguousarray(Y2.T).T),
                                ("1d-strided", _lay.relayout(y, "strided-rows")),
                                ("1d-column-of-table", _lay.relayout(y, "strided-columns")),
                                ("1d-negative-stride", _lay.relayout(y, "negative-stride"))):
                    try:
                        _, z1 = t.transform(None, Ym)
                        _, z2 = inv.transform(None, z1)
                    except Exception as e:
                        if lay == "C" or Ym.ndim == 1:
                            ctx.violation("C13/perm/raised/%s/%s/%s" % (lname, lay, type(e).__name__), str(e)[:150],
                                          cfg=cfg)
                        else:
                            ctx.excluded("2-D label matrices refused")
                        continue
                    ctx.hit("perm.roundtrip.layouts")
                    z1a, z2a = numpy.asarray(z1), numpy.asarray(z2)
                    okl = z2a.shape == Ym.shape and numpy.array_equal(z2a, Ym)
                    # and the permuted matrix is the element-wise image of the labels
                    img = numpy.vectorize(lambda v: t.permutation_[v])(Ym) if okl else None
                    if not okl or z1a.shape != Ym.shape or not numpy.array_equal(z1a.astype(float), img.astype(float)):
                        ctx.violation("C13/perm/label-roundtrip/layout-%s" % lay, "labels given as a %s array are not "
                                      "restored by transform + reciprocal (or are permuted at the wrong positions)" % lay,
                                      cfg=cfg)
            if lname == "int-0..k-1":
                P = rng.rand(5, k)
                try:
                    _, P1 = t.transform(None, P)
                    _, P2 = inv.transform(None, P1)
                except Exception as e:
                    ctx.violation("C13/perm/proba-raised/%s" % type(e).__name__, "%s: %s" % (
                        type(e).__name__, e), cfg=cfg)
                    continue
                ctx.hit("perm.roundtrip.proba")
                ctx.check(numpy.array_equal(P2, P), "C13/perm/proba-roundtrip",
                          "inverse does not restore probability columns", cfg=cfg)
                ctx.check(sorted(P1[0].tolist()) == sorted(P[0].tolist()), "C13/perm/proba-not-permutation",
                          "columns are not permuted but altered", cfg=cfg)


def run_clf(case, ctx):
    from sklearn.naive_bayes import GaussianNB
    from sklearn.tree import DecisionTreeClassifier
    from sklearn.linear_model import LogisticRegression
    from mlinsights.mlmodel import TransformedTargetClassifier2
    from mlinsights.mlmodel.sklearn_transform_inv_fct import PermutationReciprocalTransformer
    rs = case["rs"]
    rng = numpy.random.RandomState(case["sub"] % (2 ** 31) + 5)
    learners = [("GaussianNB", lambda: GaussianNB(), 1e-7),
                ("DecisionTree", lambda: DecisionTreeClassifier(max_depth=3, random_state=0), 1e-9),
                ("LogisticRegression", lambda: LogisticRegression(max_iter=2000, tol=1e-10), 2e-3)]
    for lname, mk in LABELSETS:
        for k in (2, 3, 5):
            labels = mk(k)
            n = 40 + 12 * k
            centers = rng.randn(k, 2) * 3
            yi = numpy.concatenate([numpy.arange(k), rng.randint(0, k, n - k)])
            X = centers[yi] + rng.randn(n, 2)
            y = labels[yi]
            Xt = rng.randn(25, 2) * 3
            w = rng.rand(n) + 0.5 if (rs + k) % 3 == 0 else None
            if (rs + k) % 3 == 1:
                # one weight for every row, not 1: a penalised learner does not fit the same model with it
                w = numpy.full(n, [25.0, 0.04][(rs + k) % 2])
            for learner, new, margin in learners:
                cfg = {"labels": lname, "k": k, "random_state": rs, "learner": learner, "weighted": w is not None}
                K = "C13/classifier/"
                try:
                    tt = TransformedTargetClassifier2(classifier=new(),
                                                      transformer=PermutationReciprocalTransformer(random_state=rs))
                    plain = new()
                    if w is None:
                        r = tt.fit(X, y)
                        plain.fit(X, y)
                    else:
                        r = tt.fit(X, y, sample_weight=w)
                        plain.fit(X, y, sample_weight=w)
                    pred = tt.predict(Xt)
                    proba = tt.predict_proba(Xt)
                    classes = tt.classes_
                except Exception as e:
                    ctx.hit("classifier.labels")
                    ctx.violation(K + "raised/%s/%s" % (lname, type(e).__name__), "%s: %s" % (
                        type(e).__name__, str(e)[:200]), cfg=cfg)
                    continue
                ctx.check(r is tt, K + "fit-returns-not-self", "fit did not return the estimator", cfg=cfg)
                pp = plain.predict_proba(Xt)
                top2 = numpy.sort(pp, axis=1)[:, -2:]
                sure = (top2[:, 1] - top2[:, 0]) > max(margin, 1e-6)
                ctx.excluded("row-near-tie", int((~sure).sum()))
                ctx.hit("classifier.labels")
                lab = set(labels.tolist())
                ctx.check(all(p in lab for p in pred.tolist()), K + "label-outside-original-set",
                          "predict returned %r, original labels %r" % (sorted(set(pred.tolist()))[:6], sorted(lab)),
                          cfg=cfg)
                ppred = plain.predict(Xt)
                agree = [a == b for a, b in zip(pred.tolist(), ppred.tolist())]
                bad = [i for i, (a, s) in enumerate(zip(agree, sure)) if s and not a]
                if bad:
                    ctx.violation(K + "predict-differs-from-plain", "%d confident rows get another label than the "
                                  "plain classifier (%r vs %r)" % (len(bad), pred[bad[0]], ppred[bad[0]]), cfg=cfg)
                ctx.hit("classifier.proba")
                same_classes = len(classes) == len(plain.classes_) and all(
                    a == b for a, b in zip(list(classes), list(plain.classes_)))
                ctx.check(same_classes, K + "classes-order", "classes_ %r, plain classifier %r" % (
                    list(classes), list(plain.classes_)), cfg=cfg)
                tol = max(margin, 1e-9)
                if proba.shape != pp.shape or not numpy.allclose(proba, pp, atol=tol, rtol=0):
                    ctx.violation(K + "proba-differs-from-plain", "probability columns differ from the plain "
                                  "classifier's (max diff %.3g)" % (
                                      numpy.abs(proba - pp).max() if proba.shape == pp.shape else -1), cfg=cfg,
                                  proba=proba[0], plain=pp[0])
                ctx.check(bool(numpy.allclose(proba.sum(axis=1), 1, atol=1e-9)), K + "proba-not-distribution",
                          "rows do not sum to one", cfg=cfg)
                # classes_[j] is the label of column j, independently of the plain classifier
                ctx.hit("classifier.classes_columns")
                if proba.shape[1] == len(classes):
                    am = numpy.asarray(classes)[numpy.argmax(proba, axis=1)]
                    bad = [i for i in range(len(am)) if sure[i] and am[i] != pred[i]]
                    if bad:
                        ctx.violation(K + "classes-vs-columns", "classes_[argmax proba] != predict on %d confident "
                                      "rows: classes_[j] is not the label of column j" % len(bad), cfg=cfg,
                                      classes=list(classes))
                # history: a second fit that the inner classifier refuses (NaN), labels presented in another
                # order.  Afterwards the object either says it is not fitted or still answers as before - it never
                # answers with the old classifier read through a new permutation
                if learner != "DecisionTree":
                    Xbad = X[::-1].copy()
                    Xbad[0, 0] = numpy.nan
                    try:
                        tt.fit(Xbad, y[::-1].copy())
                        refused = False
                    except Exception:
                        refused = True
                    if refused:
                        ctx.hit("classifier.after_refused_refit")
                        try:
                            pred2 = tt.predict(Xt)
                            proba2 = tt.predict_proba(Xt)
                        except Exception:
                            pred2 = None
                        if pred2 is not None and (not numpy.array_equal(pred2, pred) or not numpy.allclose(
                                proba2, proba, rtol=0, atol=1e-12)):
                            ctx.violation(K + "after-refused-refit/answers-changed", "after a refit refused by the inner "
                                          "classifier, predict / predict_proba silently give other answers than before "
                                          "(%d of %d labels changed)" % (int((pred2 != pred).sum()), len(pred)), cfg=cfg)
                perm = tt.transformer_.permutation_
                if k >= 3 and any(perm[l] != i for i, l in enumerate(sorted(perm))):
                    ctx.nontriv("clf", cfg)
                ctx.cls("learner=" + learner)
    # the string spelling 'permute' (unseeded: global generator)
    numpy.random.seed(rs)
    X = rng.randn(30, 2)
    y = (X[:, 0] > 0).astype(int) * 4 + 3
    tt = TransformedTargetClassifier2(classifier=GaussianNB(), transformer="permute").fit(X, y)
    ctx.check(set(tt.predict(X).tolist()) <= {3, 7}, "C13/classifier/label-outside-original-set",
              "'permute' returned labels outside {3, 7}", rs=rs)


class RecReg:
    """Recording regressor (BaseEstimator is mixed in lazily to keep imports inside the worker)."""


def make_recreg():
    from sklearn.base import BaseEstimator, RegressorMixin
    from sklearn.linear_model import LinearRegression

    class RecordingRegressor(BaseEstimator, RegressorMixin):
        def __init__(self, tag=0):
            self.tag = tag

        def fit(self, X, y, sample_weight=None):
            self.seen_X_ = X
            self.seen_y_ = numpy.array(y, copy=True)
            self.seen_w_ = None if sample_weight is None else numpy.array(sample_weight, copy=True)
            self.inner_ = LinearRegression().fit(X, y, sample_weight=sample_weight)
            return self

        def predict(self, X):
            return self.inner_.predict(X)

    return RecordingRegressor


def run_reg(case, ctx):
    from mlinsights.mlmodel import TransformedTargetRegressor2
    from mlinsights.mlmodel.sklearn_transform_inv_fct import FunctionReciprocalTransformer
    name = case["name"]
    f, finv, kind = F[name]
    rng = numpy.random.RandomState(case["sub"] % (2 ** 31) + 31 * len(name))
    n = int(rng.randint(8, 60))
    X = rng.randn(n, 2)
    # targets such that g(y) is roughly linear in X: y = g^-1(linear)
    lin = X @ numpy.array([0.5, -0.3]) + rng.randn(n) * 0.05
    with numpy.errstate(all="ignore"):
        y = finv(lin) if kind != "real" else lin
    if kind == "pos":
        y = numpy.abs(y) + 1e-3
    if kind == "gt-1":
        y = numpy.maximum(y, -0.99)
    Rec = make_recreg()
    for weighted in (False, True):
        for spec in ("name", "object"):
            w = rng.rand(n) + 0.2 if weighted else None
            cfg = {"name": name, "n": n, "weighted": weighted, "transformer_as": spec, "sub": case["sub"]}
            tr = name if spec == "name" else FunctionReciprocalTransformer(name)
            tt = TransformedTargetRegressor2(regressor=Rec(tag=7), transformer=tr)
            yk, Xk = y.copy(), X.copy()
            try:
                r = tt.fit(X, y) if w is None else tt.fit(X, y, sample_weight=w)
                pred = tt.predict(X)
            except Exception as e:
                ctx.hit("regressor.trained_on_g")
                ctx.violation("C13/regressor/raised/%s" % type(e).__name__, "%s: %s" % (type(e).__name__, e),
                              cfg=cfg)
                continue
            ctx.check(r is tt, "C13/regressor/fit-returns-not-self", "fit did not return the estimator", cfg=cfg)
            reg = tt.regressor_
            ctx.hit("regressor.trained_on_g")
            ctx.check(isinstance(reg, Rec) and reg.tag == 7 and hasattr(reg, "seen_y_"),
                      "C13/regressor/regressor-not-cloned-and-fitted", "regressor_ is not the fitted clone", cfg=cfg)
            if hasattr(reg, "seen_y_"):
                gy = f(y)
                ok = reg.seen_y_.shape == gy.shape and numpy.allclose(reg.seen_y_, gy, rtol=1e-9, atol=1e-12)
                ctx.check(ok, "C13/regressor/not-trained-on-transformed-target" + ("/weighted" if weighted else ""),
                          "the inner regressor was not trained on g(y)", cfg=cfg, seen=reg.seen_y_[:3], gy=gy[:3],
                          y=y[:3])
                ctx.check(numpy.array_equal(numpy.asarray(reg.seen_X_), X), "C13/regressor/features-changed",
                          "the inner regressor did not receive the caller's features", cfg=cfg)
                if weighted:
                    ctx.check(reg.seen_w_ is not None and numpy.array_equal(reg.seen_w_, w),
                              "C13/regressor/weights-lost", "sample weights not forwarded", cfg=cfg)
            ctx.hit("regressor.predict_inverse")
            with numpy.errstate(all="ignore"):
                exp = finv(reg.predict(X))
            ctx.check(numpy.allclose(pred, exp, rtol=1e-9, atol=1e-12, equal_nan=True),
                      "C13/regressor/predict-not-inverse",
                      "predict != g^-1(regressor_.predict)", cfg=cfg, got=pred[:3], expected=exp[:3])
            ctx.check(numpy.array_equal(y, yk) and numpy.array_equal(X, Xk), "C13/regressor/input-modified",
                      "X or y written to", cfg=cfg)
            ctx.nontriv("reg", cfg)
    # history on one estimator: fit, predict, change the transformer, fit, predict - the reciprocal applied by the
    # second predict is the one of the second transformer
    names = list(F)
    other = names[(names.index(name) + 1 + case["sub"] % (len(names) - 1)) % len(names)]
    f2, finv2, kind2 = F[other]
    y2 = numpy.abs(y) + 0.5 if kind2 != "real" else numpy.clip(y, -3, 3)
    y1 = numpy.abs(y) + 0.5 if kind != "real" else numpy.clip(y, -3, 3)
    cfg = {"name": name, "then": other, "history": "fit,predict,set_params(transformer),fit,predict",
           "sub": case["sub"]}
    try:
        tt = TransformedTargetRegressor2(regressor=Rec(tag=7), transformer=name)
        tt.fit(X, y1)
        tt.predict(X)
        tt.set_params(transformer=other if case["sub"] % 2 else FunctionReciprocalTransformer(other))
        tt.fit(X, y2)
        pred = tt.predict(X)
        ctx.hit("regressor.history")
        with numpy.errstate(all="ignore"):
            exp = finv2(tt.regressor_.predict(X))
        if not numpy.allclose(pred, exp, rtol=1e-9, atol=1e-12, equal_nan=True):
            ctx.violation("C13/regressor/predict-not-inverse/after-transformer-change",
                          "after changing the transformer from %r to %r and refitting, predict does not apply the "
                          "reciprocal of %r" % (name, other, other), cfg=cfg, got=pred[:3], expected=exp[:3])
        if not numpy.allclose(tt.regressor_.seen_y_, f2(y2), rtol=1e-9, atol=1e-12):
            ctx.violation("C13/regressor/not-trained-on-transformed-target/after-transformer-change",
                          "the refitted regressor was not trained on the new transformation of the target", cfg=cfg)
    except Exception as e:
        ctx.violation("C13/regressor/raised/%s/history" % type(e).__name__, str(e)[:150], cfg=cfg)
    # two models built from ONE transformer object, re-parametrised in between (a loop over function names): the first
    # model keeps applying the reciprocal of its own function
    cfg = {"name": name, "then": other, "history": "m1=fit(T(name)); T.set_params(fct=other); m2=fit(T); m1.predict",
           "sub": case["sub"]}
    try:
        T = FunctionReciprocalTransformer(name)
        m1 = TransformedTargetRegressor2(regressor=Rec(tag=7), transformer=T).fit(X, y1)
        p1 = m1.predict(X)
        T.set_params(fct=other)
        m2 = TransformedTargetRegressor2(regressor=Rec(tag=7), transformer=T).fit(X, y2)
        p1b, p2 = m1.predict(X), m2.predict(X)
        ctx.hit("regressor.shared_transformer")
        with numpy.errstate(all="ignore"):
            e1, e2 = finv(m1.regressor_.predict(X)), finv2(m2.regressor_.predict(X))
        if not numpy.allclose(p1b, p1, rtol=1e-12, atol=1e-12, equal_nan=True) or not numpy.allclose(
                p1b, e1, rtol=1e-9, atol=1e-12, equal_nan=True):
            ctx.violation("C13/regressor/predict-not-inverse/transformer-object-shared", "a model fitted with a "
                          "transformer object changes its predictions when that object is re-parametrised and used "
                          "by another model (%r -> %r)" % (name, other), cfg=cfg, before=p1[:3], after=p1b[:3])
        if not numpy.allclose(p2, e2, rtol=1e-9, atol=1e-12, equal_nan=True):
            ctx.violation("C13/regressor/predict-not-inverse/second-model", "the second model does not apply the "
                          "reciprocal of %r" % other, cfg=cfg)
    except Exception as e:
        ctx.violation("C13/regressor/raised/%s/shared-transformer" % type(e).__name__, str(e)[:150], cfg=cfg)
    ctx.cls("reg=" + name)


def run_case(case, ctx):
    {"fct": run_fct, "perm": run_perm, "clf": run_clf, "reg": run_reg}[case["gen"]](case, ctx)


def evaluations(counters, ncases):
    return int(sum(counters.get(k, 0) for k in ("fct.roundtrip", "perm.roundtrip.labels", "classifier.labels",
                                                "regressor.trained_on_g")))
