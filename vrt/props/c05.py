"""C05 - QuantileLinearRegression fits, and scores with, the pinball loss of its quantile.

Oracle: the exact optimum of the pinball loss over linear functions, from the LP
   min sum_i w_i (q u+_i + (1-q) u-_i)   s.t.  X b + u+ - u- = y,  u+,u- >= 0  (b >= 0 if positive)
solved by scipy.optimize.linprog(highs), and a 3-line NumPy pinball loss.
"""
import numpy

PROPERTY = "C05"
LEVEL = "exploration"
NEED_EXT = True
REQUIRED = ["fit.concurrent_pair", "history.refused_refit_other_intercept", "fit.optimality", "fit.quantile_fraction", "score.exact", "score.monotone",
            "weights.duplication", "option.positive", "option.no_intercept"]
RULE = ("cases drawn from (quantile x n x p x noise kind x weights x positive x fit_intercept x container); "
        "non-trivial = q != 0.5, n >= 5(p+1) and LP optimum > 0; distinct = distinct (config, data fingerprint)")
ASSUMPTIONS = [
    "IRLS is run with max_iter=300 (default 10 stops ~8% above the optimum by design) and re-run with max_iter=6000 "
    "when the gap exceeds 1e-4; tolerance on the optimality gap of the converged run: relative 1e-3 + absolute "
    "1e-9, the worst observed gap is reported on every run",
    "full-rank designs with continuous noise, data scale O(1) (delta=1e-4 is an absolute smoothing constant)",
]
EPS_REL = 1e-3

QS = [0.05, 0.1, 0.25, 0.5, 0.75, 0.9, 0.95]
NOISES = ["gauss", "t3", "hetero", "skew", "uniform"]


def cases(tier, seed):
    n = 480 if tier == "quick" else 6000
    return [{"gen": "qr", "id": "qr-%d" % k, "sub": seed * 1000003 + k} for k in range(n)]


def pinball(y, f, q, w=None):
    r = y - f
    l = q * numpy.maximum(r, 0) + (1 - q) * numpy.maximum(-r, 0)
    return float(numpy.sum(l if w is None else l * w))


def lp_optimum(X, y, q, w, fit_intercept, positive):
    from scipy.optimize import linprog
    n, p = X.shape
    Xm = numpy.hstack([X, numpy.ones((n, 1))]) if fit_intercept else X
    k = Xm.shape[1]
    ww = numpy.ones(n) if w is None else w
    c = numpy.concatenate([numpy.zeros(k), q * ww, (1 - q) * ww])
    A = numpy.hstack([Xm, numpy.eye(n), -numpy.eye(n)])
    lo = 0 if positive else None
    bounds = [(lo, None)] * p + ([(None, None)] if fit_intercept else []) + [(0, None)] * (2 * n)
    res = linprog(c, A_eq=A, b_eq=y, bounds=bounds, method="highs")
    if res.status != 0:
        return None
    return float(res.fun)


def make_data(rng, n, p, noise, positive):
    X = rng.randn(n, p) * rng.uniform(0.5, 3.0, size=p) + rng.uniform(-2, 2, size=p)
    beta = rng.uniform(-3, 3, size=p)
    if positive and rng.rand() < 0.5:
        beta = numpy.abs(beta)
    b0 = rng.uniform(-2, 2)
    if noise == "gauss":
        e = rng.randn(n)
    elif noise == "t3":
        e = rng.standard_t(3, size=n)
    elif noise == "hetero":
        e = rng.randn(n) * (0.2 + numpy.abs(X[:, 0]))
    elif noise == "skew":
        e = rng.exponential(1.0, size=n) - 0.3
    else:
        e = rng.uniform(-2, 2, size=n)
    y = X @ beta + b0 + e * rng.uniform(0.3, 2.0)
    return X, y


def run_case(case, ctx):
    import pandas
    from vrt import layouts as layouts_mod
    from mlinsights.mlmodel import QuantileLinearRegression
    sub = case["sub"]
    rng = numpy.random.RandomState(sub % (2 ** 31))
    q = QS[sub % len(QS)] if rng.rand() < 0.8 else float(numpy.round(rng.uniform(0.03, 0.97), 3))
    p = int(rng.randint(1, 6))
    n = int(rng.randint(max(20, 6 * (p + 1)), 400))
    noise = NOISES[(sub // 7) % len(NOISES)]
    positive = bool(rng.rand() < 0.2)
    fit_intercept = bool(rng.rand() < 0.8)
    weighted = bool(rng.rand() < 0.35)
    frame = bool(rng.rand() < 0.2)
    X, y = make_data(rng, n, p, noise, positive)
    # container / dtype / scale classes: the loss is scale-equivariant and the estimator documents that the
    # target "will be cast to X's dtype if necessary"
    variant = ["float64", "bool-features", "tiny-scale", "int-target", "int-features", "large-scale", "float32-features",
               "fortran-order", "unsigned-features"][(sub // 3) % 9]
    S = 1.0            # magnitude of the targets; absolute slacks and the IRLS floor `delta` follow it
    y_unit = None
    if variant == "int-target":
        y = numpy.round(y * 10).astype(numpy.int64)
    elif variant == "int-features":
        X = numpy.round(X * 10).astype(numpy.int64)
        y = X @ rng.uniform(-0.3, 0.3, size=p) + rng.randn(n)
        if len(numpy.unique(X, axis=0)) < n // 2 or numpy.linalg.matrix_rank(
                numpy.hstack([X, numpy.ones((n, 1))])) < p + 1:
            variant = "float64"
            X, y = make_data(rng, n, p, noise, positive)
    elif variant == "bool-features":
        # indicator columns (get_dummies output): X.dtype is bool
        Xb = rng.rand(n, p) < rng.uniform(0.3, 0.7, size=p)
        if numpy.linalg.matrix_rank(numpy.hstack([Xb.astype(float), numpy.ones((n, 1))])) == p + 1:
            X = Xb
            y = X.astype(float) @ rng.uniform(-2, 2, size=p) + rng.randn(n)
        else:
            variant = "float64"
    elif variant == "unsigned-features":
        # counts stored as uint8 / uint16 / uint32 (pixel values, word counts); the intercept is far below zero, so
        # that with positive=True the negative intercept column is what the fit needs
        udt = ["uint8", "uint16", "uint32"][(sub // 27) % 3]
        Xu = numpy.clip(numpy.round(numpy.abs(X) * 12), 0, 250).astype(udt)
        if len(numpy.unique(Xu, axis=0)) >= n // 2 and numpy.linalg.matrix_rank(
                numpy.hstack([Xu.astype(float), numpy.ones((n, 1))])) == p + 1:
            X = Xu
            positive = bool((sub // 27) % 2 == 0)
            bu = rng.uniform(0.05, 0.4, size=p) if positive else rng.uniform(-0.3, 0.3, size=p)
            y = X.astype(float) @ bu - 20.0 + rng.randn(n)
        else:
            variant = "float64"
    elif variant == "large-scale":
        y = y * 1e5 + 3e5
    elif variant == "tiny-scale":
        # the loss is positively homogeneous: the LP optimum is computed on the unit-scale problem and scaled
        S = 10.0 ** (-int(rng.randint(6, 11)))
        y_unit = y
        y = y * S
    elif variant == "float32-features":
        X = X.astype(numpy.float32)
    elif variant == "fortran-order":
        X = layouts_mod.relayout(X, ["fortran", "strided-columns", "strided-rows", "negative-stride", "read-only"][
            (sub // 24) % 5])
    ctx.cls("variant=" + variant)
    w = rng.randint(1, 5, size=n).astype(float) if weighted else None
    frac_w = bool(weighted and variant in ("int-features", "bool-features", "float32-features") and sub % 2)
    if frac_w:
        w = w - 0.5          # 0.5, 1.5, 2.5, 3.5: not representable in the dtype of integer / boolean features
    cfg = {"q": q, "n": n, "p": p, "noise": noise, "positive": positive, "variant": variant,
           "fit_intercept": fit_intercept, "weighted": weighted, "fractional_weights": frac_w, "frame": frame, "sub": sub}
    ctx.cls("noise=" + noise)
    ctx.cls("q<0.5" if q < 0.5 else ("q=0.5" if q == 0.5 else "q>0.5"))
    if weighted:
        ctx.cls("weighted")
    if positive:
        ctx.cls("positive")
    if not fit_intercept:
        ctx.cls("no-intercept")
    Xin = pandas.DataFrame(X, columns=["c%d" % i for i in range(p)]) if frame else X
    yin, win = y, w
    if frame and sub % 2:
        # a frame, a target and weights that share a permuted index (rows of df.sample(frac=1))
        ix = numpy.random.RandomState(sub % 997).permutation(len(X))
        Xin.index = ix
        yin = pandas.Series(y, index=ix)
        win = None if w is None else pandas.Series(w, index=ix)
        cfg["index"] = "permuted"
    elif frame:
        # the frame carries a shuffled index (rows of a split), the target is a Series built afterwards on the default
        # range index: scikit-learn pairs them by POSITION
        Xin.index = numpy.random.RandomState(sub % 997).permutation(len(X))
        yin = pandas.Series(y)
        win = None if w is None else pandas.Series(w)
        cfg["index"] = "frame-shuffled/target-range"

    A = 1e-9 * S
    copy_X = (sub // 11) % 6 != 0          # copy_X=False: X may be overwritten, the fit is the same fit
    cfg["copy_X"] = copy_X
    if not copy_X:
        ctx.cls("copy_X=False")

    from vrt import layouts
    via = (sub // 13) % 4 == 0
    cfg["configured_with"] = "set_params" if via else "constructor"

    def new(max_iter=300, quantile=None):
        return layouts.build(QuantileLinearRegression, dict(
            quantile=q if quantile is None else quantile, max_iter=max_iter, positive=positive,
            fit_intercept=fit_intercept, delta=1e-4 * S, copy_X=copy_X), via, as_numpy_scalars=(sub // 7) % 3 == 0, decoys=
            dict(quantile=0.5 if q != 0.5 else 0.2, max_iter=3, positive=not positive,
                 fit_intercept=not fit_intercept, delta=0.5))

    numpy.random.seed(sub % (2 ** 31))
    m = new()
    if not copy_X:
        Xin = Xin.copy()
    r = m.fit(Xin, yin) if w is None else m.fit(Xin, yin, sample_weight=win)
    ctx.check(r is m, "C05/fit/returns-not-self", "fit did not return the estimator", cfg=cfg)
    f = m.predict(X)
    lstar = lp_optimum(X, y if y_unit is None else y_unit, q, w, fit_intercept, positive)
    if lstar is not None and y_unit is not None:
        lstar = lstar * S
    lfit = pinball(y, f, q, w)
    if lstar is not None and lfit > lstar * (1 + 1e-4) + A:
        # IRLS converges slowly at extreme quantiles on small samples (gap 1.2e-3 after 300 iterations, 7e-6 after
        # 2 326 on n=35, q=0.05): "up to the IRLS tolerance" is judged on a converged run
        ctx.hit("fit.slow_convergence_refit")
        numpy.random.seed(sub % (2 ** 31))
        m = new(max_iter=6000)
        if not copy_X:
            Xin = pandas.DataFrame(X.copy(), columns=["c%d" % i for i in range(p)]) if frame else X.copy()
        # (the same containers as the first fit: the converged run must not hide what the containers cause)
        m.fit(Xin, yin) if w is None else m.fit(Xin, yin, sample_weight=win)
        f = m.predict(X)
        lfit = pinball(y, f, q, w)
    if lstar is None:
        ctx.excluded("lp-failed")
    else:
        ctx.hit("fit.optimality")
        gap = lfit / lstar if lstar > 0 else 1.0
        ctx.extra["max_ratio"] = gap
        ctx.extra["cfg_of_max"] = cfg
        if not (lfit <= lstar * (1 + EPS_REL) + A):
            kind = "weighted" if weighted else "unweighted"
            ctx.violation("C05/fit/not-optimal/%s%s" % (kind, "/positive" if positive else ""),
                          "pinball loss of the fit %.6g exceeds the LP optimum %.6g by factor %.5f" % (
                              lfit, lstar, gap), cfg=cfg, coef=m.coef_, intercept=m.intercept_)
        if lfit < lstar * (1 - 1e-7) - A:
            ctx.violation("C05/oracle/below-lp-optimum", "fit beats the LP optimum: oracle problem",
                          cfg=cfg, lfit=lfit, lstar=lstar)
        if q != 0.5 and n >= 5 * (p + 1) and lstar > 0:
            ctx.nontriv(cfg)
    # fraction below the fit
    if w is None and fit_intercept and not positive:
        ctx.hit("fit.quantile_fraction")
        frac = float(numpy.mean(y < f))
        slack = (p + 1) / n + 0.03
        ctx.check(abs(frac - q) <= slack, "C05/fit/quantile-fraction",
                  "fraction of targets below the fit is %.4f for q=%.3f (slack %.4f)" % (frac, q, slack),
                  cfg=cfg)
    # options
    if positive:
        ctx.hit("option.positive")
        ctx.check(bool((numpy.asarray(m.coef_) >= -1e-12).all()), "C05/fit/positive-negative-coef",
                  "negative coefficient with positive=True", cfg=cfg, coef=m.coef_)
    if not fit_intercept:
        ctx.hit("option.no_intercept")
        ctx.check(float(m.intercept_) == 0.0, "C05/fit/intercept-nonzero",
                  "non-zero intercept with fit_intercept=False: %r" % (m.intercept_,), cfg=cfg)
    # score = twice the mean pinball loss of the same quantile, on train and on fresh data
    X2, y2 = make_data(numpy.random.RandomState((sub + 17) % (2 ** 31)), max(5, n // 3), p, noise, positive)
    for name, (Xa, ya, wa) in {"train": (X, y, w), "fresh": (X2, y2, None),
                               "fresh-w": (X2, y2, numpy.random.RandomState(sub % 997).rand(len(y2)) + 0.5)
                               }.items():
        fa = m.predict(Xa)
        try:
            s = float(m.score(Xa, ya) if wa is None else m.score(Xa, ya, sample_weight=wa))
        except Exception as e:
            ctx.violation("C05/score/raised/%s" % type(e).__name__, "score raised %s: %s" % (
                type(e).__name__, e), cfg=cfg, on=name)
            continue
        ctx.hit("score.exact")
        tot = pinball(ya, fa, q, wa)
        # the mean of a weighted sample is the weighted mean (what "integer weights are equivalent to repeating
        # rows" and the q = 0.5 case, scikit-learn's weighted mean absolute error, both say)
        want = 2 * tot / (len(ya) if wa is None else float(numpy.sum(wa)))
        if not abs(s - want) <= 1e-11 * abs(want) + 1e-12 * S:
            other = 2 * pinball(ya, fa, 1 - q, wa) / len(ya)
            byn = 2 * tot / len(ya)
            how = "/weighted" if wa is not None else ""
            if wa is not None and abs(s - byn) <= 1e-11 * abs(byn):
                how += "/divided-by-n-not-by-sum-of-weights"
            ctx.violation("C05/score/not-twice-pinball" + how,
                          "score=%.12g, 2*mean pinball_q=%.12g (2*mean pinball_(1-q)=%.12g; sum/n=%.12g)" % (
                              s, want, other, byn), cfg=cfg, on=name)
    # integer weights are equivalent to repeating rows, for score as well
    wi = numpy.random.RandomState(sub % 991).randint(1, 4, size=len(y2)).astype(float)
    try:
        s_w = float(m.score(X2, y2, sample_weight=wi))
        s_r = float(m.score(numpy.repeat(X2, wi.astype(int), axis=0), numpy.repeat(y2, wi.astype(int))))
        ctx.hit("score.weights_vs_repetition")
        if not abs(s_w - s_r) <= 1e-10 * abs(s_r) + 1e-12 * S:
            ctx.violation("C05/score/weights-vs-duplication", "score with integer weights %.12g, score on the repeated "
                          "rows %.12g" % (s_w, s_r), cfg=cfg)
    except Exception as e:
        ctx.violation("C05/score/raised/%s" % type(e).__name__, str(e)[:150], cfg=cfg, on="integer weights")
    # a better q-quantile fit never scores worse: compare with rival hyperplanes scored for the same q
    rivals = []
    for q2, it in ((1 - q if q != 0.5 else 0.3, 300), (q, 1), (0.5 if q != 0.5 else 0.8, 300)):
        mr = new(max_iter=it, quantile=q2)
        mr.fit(X.copy(), y)
        mr.set_params(quantile=q)
        rivals.append(mr)
    scored = [(pinball(y2, mm.predict(X2), q), float(mm.score(X2, y2))) for mm in [m] + rivals]
    for i in range(len(scored)):
        for j in range(len(scored)):
            li, si = scored[i]
            lj, sj = scored[j]
            if li < lj * (1 - 1e-9) - 1e-12 * S:
                ctx.hit("score.monotone")
                ctx.check(si <= sj + 1e-12 * S, "C05/score/not-monotone",
                          "hyperplane with smaller pinball loss (%.6g < %.6g) scores worse (%.6g > %.6g)" % (
                              li, lj, si, sj), cfg=cfg)
    # a weight of exactly 0 is a row repeated zero times: masked rows (sentinel targets far from everything, weight 0)
    # leave the fit what it is without them
    if sub % 4 == 1 and y.dtype.kind == "f" and n >= 12 and variant not in ("tiny-scale",):
        kz = max(2, n // 20)
        zi = numpy.random.RandomState(sub % 1013).choice(n, kz, replace=False)
        y0w = numpy.array(y, dtype=float, copy=True)
        y0w[zi] = -9999.0 * (1.0 + float(numpy.abs(y).max()))
        w0w = numpy.ones(n) if w is None else numpy.array(w, dtype=float, copy=True)
        w0w[zi] = 0.0
        keep_ = numpy.ones(n, dtype=bool)
        keep_[zi] = False
        try:
            numpy.random.seed(sub % (2 ** 31))
            mz = new().fit(numpy.array(X, copy=True), y0w, sample_weight=w0w)
            numpy.random.seed(sub % (2 ** 31))
            mk_ = new().fit(numpy.array(X[keep_], copy=True), y[keep_], sample_weight=w0w[keep_])
            lz = pinball(y[keep_], mz.predict(X[keep_]), q, w0w[keep_])
            lk = pinball(y[keep_], mk_.predict(X[keep_]), q, w0w[keep_])
            ctx.hit("weights.zero_is_absent")
            ctx.check(abs(lz - lk) <= 2 * EPS_REL * max(lz, lk) + A, "C05/fit/zero-weight-rows-still-count",
                      "%d rows with weight 0 and sentinel targets: the fit has pinball loss %.6g on the other rows, the fit "
                      "without them %.6g" % (kz, lz, lk), cfg=cfg)
        except Exception as e:
            ctx.violation("C05/fit/raised/%s/zero-weight-rows" % type(e).__name__, str(e)[:150], cfg=cfg)
    # integer weights are equivalent to repeated rows
    if w is not None:
        rep = (w * 2).astype(int) if frac_w else w.astype(int)     # halves: repeat twice as often (same optimum)
        Xr = numpy.repeat(X, rep, axis=0)
        yr = numpy.repeat(y, rep)
        numpy.random.seed(sub % (2 ** 31))
        mrep = new().fit(Xr.copy(), yr)
        la = pinball(yr, m.predict(Xr), q)
        lb = pinball(yr, mrep.predict(Xr), q)
        ctx.hit("weights.duplication")
        ctx.check(abs(la - lb) <= 2 * EPS_REL * max(la, lb) + A, "C05/fit/weights-vs-duplication",
                  "weighted fit and repeated-rows fit differ: pinball %.6g vs %.6g on the repeated data" % (
                      la, lb), cfg=cfg)
    # history: the other fit_intercept setting is asked for and that fit is REFUSED by the inner regression; whatever
    # hyperplane the object then still answers with is the fitted one (it minimises the loss as before) - or it refuses
    if sub % 3 == 0:
        h = new()
        Xh = numpy.array(X, copy=True)
        h.fit(Xh, y) if w is None else h.fit(Xh, y, sample_weight=w)
        loss0 = pinball(y, h.predict(X), q, w)
        h.set_params(fit_intercept=not fit_intercept)
        fault = ["nan-in-X", "weights-of-other-length", "inf-in-y"][(sub // 3) % 3]
        try:
            if fault == "nan-in-X" and X.dtype.kind == "f":
                Xb = numpy.array(X, copy=True)
                Xb[n // 2, 0] = numpy.nan
                h.fit(Xb, y)
            elif fault == "inf-in-y":
                yb = numpy.array(y, dtype=float)
                yb[n // 3] = numpy.inf
                h.fit(numpy.array(X, copy=True), yb)
            else:
                h.fit(numpy.array(X, copy=True), y, sample_weight=numpy.ones(n + 3))
            refused = False
        except Exception:
            refused = True
        if refused:
            try:
                fh = h.predict(X)
            except Exception:
                fh = None
            ctx.hit("history.refused_refit_other_intercept")
            if fh is not None:
                loss1 = pinball(y, fh, q, w)
                if not loss1 <= loss0 * (1 + 1e-9) + A:
                    ctx.violation("C05/history/refused-refit/hyperplane-no-longer-minimises",
                                  "fit(fit_intercept=%r), set_params(fit_intercept=%r), a refit the inner regression refuses "
                                  "(%s): predict now answers with a hyperplane of pinball loss %.6g (was %.6g)" % (
                                      fit_intercept, not fit_intercept, fault, loss1, loss0), cfg=cfg)
    # two models fitted at the same time in two threads (another quantile, other targets, the same number of rows),
    # with yield injection in the library's source: each is the model a lone fit gives
    if sub % 10 == 0:
        import threading
        from vrt.sched import Perturb
        q2 = 1 - q if q != 0.5 else 0.2
        y_other = (y[::-1] * 1.0).copy() if y.dtype.kind == "f" else y[::-1].copy()
        lone = [new().fit(X.copy(), y), new(quantile=q2).fit(X.copy(), y_other)]
        for rep in range(2):
            pair = [new(), new(quantile=q2)]
            errs = []

            def work(mm, yy):
                try:
                    mm.fit(X.copy(), yy)
                except BaseException as ex_:   # noqa: B036
                    errs.append(ex_)

            with Perturb(("quantile_regression.py",), seed=sub + rep, prob=0.5, max_us=300) as pt:
                ts = [threading.Thread(target=work, args=(pair[0], y)),
                      threading.Thread(target=work, args=(pair[1], y_other))]
                [t.start() for t in ts]
                [t.join(120) for t in ts]
            ctx.hit("fit.concurrent_pair")
            ctx.extra["yields"] = ctx.extra.get("yields", 0) + pt.yields
            if errs:
                ctx.violation("C05/fit/concurrent/raised/%s" % type(errs[0]).__name__, str(errs[0])[:150], cfg=cfg)
                break
            same = all(numpy.allclose(a.coef_, b.coef_, rtol=1e-9, atol=1e-12 * S) and
                       numpy.allclose(a.intercept_, b.intercept_, rtol=1e-9, atol=1e-12 * S)
                       for a, b in zip(pair, lone))
            if not same:
                ctx.violation("C05/fit/concurrent/not-the-lone-fit", "two models fitted at the same time in two threads "
                              "(q=%g and q=%g, %d rows each) are not the models fitted alone: the fits share state" % (
                                  q, q2, n), cfg=cfg)
                break
    ctx.sample({"cfg": cfg, "coef": m.coef_, "intercept": m.intercept_, "pinball_fit": lfit,
                "lp_optimum": lstar, "n_iter": m.n_iter_})


def summarize(extras, counters):
    worst = max(extras, key=lambda e: e.get("max_ratio", 0), default=None)
    return {"worst_observed_ratio_fit_over_lp_optimum": worst and worst.get("max_ratio"),
            "config_of_worst_ratio": worst and worst.get("cfg_of_max"), "eps_rel": EPS_REL}


def evaluations(counters, ncases):
    return ncases
