"""C06 - KMeansL1L2: L1 is self-consistent in Manhattan geometry, L2 is exactly KMeans.

Post-fit invariants checked on the fitted object (brute-force cityblock distances as oracle) and, for
norm='L2', array equality with sklearn.cluster.KMeans run with the same parameters and seed.  A hook on
the module-level _centers_dense records whether an M-step produced a non-finite centre (mechanism of the
empty-cluster defect).
"""
import warnings

import numpy

PROPERTY = "C06"
LEVEL = "exploration"
NEED_EXT = True
REQUIRED = ["L1.fit", "L1.labels_nearest", "L1.inertia", "L1.centre_range", "L1.predict", "L1.transform",
            "L2.equal_to_kmeans", "hook._centers_dense", "L1.tiehunt_fits", "L1.predict_int_batch"]
RULE = ("data classes blobs / duplicates / integer lattice / n==k / k==1 / line / 1-D / float32 / large offset / "
        "outlier initial centres (empty clusters) / count tables (tie hunt: thousands of tiny fits, a hook on the "
        "E-step reports how many had a best iteration different from the last) x k 1-8 x init {k-means++, random, ndarray} x n_init x max_iter x tol; "
        "non-trivial = k >= 2 and n > k; distinct = distinct (class, parameters, data seed)")
ASSUMPTIONS = ["dense finite data with at least k distinct rows; sample weights None or uniform (non-uniform weights "
               "raise NotImplementedError by documentation)",
               "nearest-centre clauses accept ties: d(x, c_label) <= min_j d(x, c_j) (1 + 1e-9) (float32: 1e-4)",
               "one OpenMP/BLAS thread so that scikit-learn's KMeans is bit-reproducible for the L2 clause"]

CLASSES = ["blobs", "duplicates", "lattice", "n==k", "k==1", "line", "1-D", "float32", "offset", "empty-cluster-init",
           "lattice-random-init", "count-table", "tiny-scale", "huge-scale"]


def cases(tier, seed):
    n = 420 if tier == "quick" else 5000
    out = [{"gen": "km", "id": "km-%d" % k, "sub": seed * 1000003 + k} for k in range(n)]
    # tie hunt: thousands of tiny fits on count-like tables, where an iteration can tie the best inertia
    # while the centres still move (the only situation in which "best centres" != "last centres")
    for k in range(96 if tier == "quick" else 960):
        out.append({"gen": "tiehunt", "id": "tiehunt-%d" % k, "sub": seed * 1000003 + k, "fits": 450})
    return out


def make(rng, cls):
    k = int(rng.randint(2, 9))
    d = int(rng.randint(1, 5))
    n = int(rng.randint(k + 1, 120))
    init = ["k-means++", "random"][rng.randint(2)]
    if cls in ("blobs", "tiny-scale", "huge-scale"):
        c = rng.randn(k, d) * 6
        X = c[rng.randint(k, size=n)] + rng.randn(n, d)
        if cls != "blobs":
            X = X * (10.0 ** (-int(rng.randint(8, 13))) if cls == "tiny-scale" else 10.0 ** int(rng.randint(5, 9)))
    elif cls == "duplicates":
        base = rng.randn(k + int(rng.randint(0, 4)), d) * 3
        X = base[rng.randint(len(base), size=n)]
        mb = min(len(base), n)
        X[:mb] = base[:mb]
    elif cls in ("lattice", "lattice-random-init"):
        side = int(rng.randint(2, 5))
        d = int(rng.randint(1, 3))
        X = rng.randint(0, side, size=(n, d)).astype(float)
        grid = numpy.array(numpy.meshgrid(*[numpy.arange(side)] * d)).reshape(d, -1).T.astype(float)
        mm = min(len(grid), n)
        X[:mm] = grid[:mm]
        k = int(min(k, len(numpy.unique(X, axis=0))))
        if cls == "lattice-random-init":
            init = "random"
    elif cls == "count-table":
        X = rng.poisson(0.3, size=(n, d)).astype(float)
        X[0] = 5
        k = int(min(k, len(numpy.unique(X, axis=0))))
    elif cls == "n==k":
        X = rng.randn(k, d) * 3
        n = k
    elif cls == "k==1":
        X = rng.randn(n, d)
        k = 1
    elif cls == "line":
        t = rng.randn(n, 1)
        X = t @ rng.randn(1, d) + rng.randn(1, d)
    elif cls == "1-D":
        X = rng.randn(n, 1) * 3
    elif cls == "float32":
        X = (rng.randn(n, d) * 4).astype(numpy.float32)
    elif cls == "offset":
        X = 1e6 + rng.randn(n, d)
    else:  # empty-cluster-init
        # half of the tables do not surround the origin: a centre left at its zero initial value is then
        # outside the range of the data instead of quietly capturing points
        X = rng.randn(n, d) + (0.0 if rng.rand() < 0.5 else 20.0 * (1 + rng.randint(3)))
        far = X[:k].copy()
        far[k // 2:] += 1e3 * (1 + numpy.arange(k - k // 2))[:, None]
        init = far
    k = max(1, min(k, len(numpy.unique(X, axis=0))))
    if isinstance(init, numpy.ndarray):
        init = init[:k]
    elif rng.rand() < 0.15 and cls not in ("n==k",):
        init = X[rng.choice(len(X), k, replace=False)].copy()
    return X, k, init


def run_tiehunt(case, ctx):
    from scipy.spatial.distance import cdist
    import mlinsights.mlmodel.kmeans_l1 as mod
    from mlinsights.mlmodel import KMeansL1L2
    real = mod._labels_inertia
    log = []

    def wrapped(norm, X, sw, centers, distances=None):
        out = real(norm, X, sw, centers, distances=distances)
        log.append(float(out[1]))
        return out

    mod._labels_inertia = wrapped
    try:
        for j in range(case["fits"]):
            s = (case["sub"] * 1009 + j) % (2 ** 31)
            rng = numpy.random.RandomState(s)
            n = int(rng.randint(8, 60))
            d = int(rng.randint(1, 5))
            kind = ["poisson", "binary", "small-int", "half-int"][j % 4]
            if kind == "poisson":
                X = rng.poisson([0.2, 0.5, 1.0][rng.randint(3)], size=(n, d)).astype(float)
            elif kind == "binary":
                X = (rng.rand(n, d) < 0.3).astype(float)
            elif kind == "small-int":
                X = rng.randint(0, 3, size=(n, d)).astype(float)
            else:
                X = rng.randint(0, 4, size=(n, d)) / 2.0
            k = min(int(rng.randint(2, 6)), len(numpy.unique(X, axis=0)))
            if k < 2:
                continue
            cfg = {"class": "tiehunt-" + kind, "n": n, "d": d, "k": k, "data_seed": s}
            del log[:]
            m = KMeansL1L2(n_clusters=k, n_init=1, random_state=s % 1000, norm="L1",
                           init=["k-means++", "random"][j % 2])
            try:
                m.fit(X)
            except Exception as e:
                ctx.violation("C06/L1/fit/raised/%s" % type(e).__name__, "fit raised on a count table: %s" % (
                    str(e)[:150]), cfg=cfg)
                continue
            ctx.hit("L1.tiehunt_fits")
            T = m.n_iter_
            if len(log) == T + 1 and min(range(T), key=lambda i: (log[i], i)) != T - 1:
                ctx.hit("L1.tiehunt_best_iteration_not_last")
                ctx.nontriv("tiehunt", cfg)
            C = numpy.asarray(m.cluster_centers_, dtype=float)
            D = cdist(X, C, "cityblock")
            dmin = D.min(axis=1)
            own = D[numpy.arange(n), m.labels_]
            if (own > dmin + 1e-9).any():
                ctx.violation("C06/L1/labels/not-nearest-centre", "a training point carries a label whose centre is "
                              "not Manhattan-nearest", cfg=cfg, n_iter=T)
            if abs(m.inertia_ - dmin.sum()) > 1e-9 * max(1.0, dmin.sum()):
                ctx.violation("C06/L1/inertia/not-sum-of-distances", "inertia_=%r, sum of distances to the nearest "
                              "returned centre=%r" % (m.inertia_, float(dmin.sum())), cfg=cfg, n_iter=T,
                              inertia_per_iteration=log[:8])
    finally:
        mod._labels_inertia = real
    ctx.cls("class=tiehunt")


def run_case(case, ctx):
    if case["gen"] == "tiehunt":
        return run_tiehunt(case, ctx)
    from scipy.spatial.distance import cdist
    from sklearn.cluster import KMeans
    import mlinsights.mlmodel.kmeans_l1 as mod
    from mlinsights.mlmodel import KMeansL1L2
    rng = numpy.random.RandomState(case["sub"] % (2 ** 31))
    cls = CLASSES[case["sub"] % len(CLASSES)]
    X, k, init = make(rng, cls)
    n_init = 1 if isinstance(init, numpy.ndarray) else [1, 3][rng.randint(2)]
    rng2 = numpy.random.RandomState((case["sub"] * 7 + 3) % (2 ** 31))
    init_l1 = init
    if isinstance(init, numpy.ndarray) and rng2.rand() < 0.3:
        n_init = 3  # "explicit initial centres: performing only one init" branch
    elif isinstance(init, str) and rng2.rand() < 0.12:
        # a callable init (mlinsights' signature: init(norm, X, k, random_state=...)): k distinct data rows
        if rng2.rand() < 0.5 and len(numpy.unique(X[:k], axis=0)) == k:
            # ... that returns a VIEW of the matrix it is given (its first k rows)
            def init_l1(norm, Xa, kk, random_state=None):
                return Xa[:kk]
        else:
            def init_l1(norm, Xa, kk, random_state=None):
                u = numpy.unique(Xa, axis=0)
                return u[random_state.permutation(len(u))[:kk]]
    max_iter = [1, 2, 300][rng.randint(3)] if rng.rand() < 0.4 else 300
    tol = 0.0 if rng.rand() < 0.2 else 1e-4
    rs = int(rng.randint(0, 1000))
    uniform_w = rng.rand() < 0.15
    w = numpy.full(len(X), 2.0) if uniform_w else None
    cfg = {"class": cls, "n": int(X.shape[0]), "d": int(X.shape[1]), "k": k,
           "init": init if isinstance(init, str) else "ndarray", "init_L1": "callable" if callable(init_l1) else None,
           "n_init": n_init, "max_iter": max_iter, "tol": tol,
           "random_state": rs, "uniform_weights": bool(uniform_w), "dtype": str(X.dtype), "sub": case["sub"]}
    ctx.cls("class=" + cls)
    from vrt import layouts
    lay = layouts.pick(case["sub"], 1)
    X = layouts.relayout(X, lay)
    via = (case["sub"] // 5) % 4 == 0
    cfg["layout"], cfg["configured_with"] = lay, "set_params" if via else "constructor"
    ctx.cls("layout=" + lay)
    sq = float(numpy.abs(X - X.mean(axis=0)).max()) or 1.0
    sq = sq if cls in ("tiny-scale", "huge-scale") else 1.0
    Xq = numpy.vstack([X[: min(5, len(X))],
                       (X[rng.randint(len(X), size=8)] + rng.randn(8, X.shape[1]) * sq * (0.2 if sq != 1.0 else 1.0)
                        ).astype(X.dtype),
                       (X.mean(axis=0, keepdims=True) + 50 * sq).astype(X.dtype)])
    f32 = X.dtype == numpy.float32
    rt = 1e-4 if f32 else 1e-9
    sc = float(numpy.abs(X).max()) or 1.0     # absolute slack follows the magnitude of the data
    at = (1e-3 if f32 else 1e-9) * sc
    Xk = X.copy()

    # ---- hook: does an M-step ever return a non-finite centre, and for which kind of cluster?
    real = mod._centers_dense
    hook = {"calls": 0, "nan_empty": 0, "nan_other": 0}

    def wrapped(Xa, sw, labels, n_clusters, distances, X_sort_index):
        out = real(Xa, sw, labels, n_clusters, distances, X_sort_index)
        hook["calls"] += 1
        bad = ~numpy.isfinite(out).all(axis=1)
        if bad.any():
            cnt = numpy.bincount(labels, minlength=n_clusters)
            if (cnt[bad] == 0).all():
                hook["nan_empty"] += 1
            else:
                hook["nan_other"] += 1
        return out

    mod._centers_dense = wrapped
    try:
        m = layouts.build(KMeansL1L2, dict(n_clusters=k, init=init_l1, n_init=n_init, max_iter=max_iter, tol=tol,
                                           random_state=rs, norm="L1"), via,
                          as_numpy_scalars=(case["sub"] // 7) % 3 == 0, decoys=
                          dict(n_clusters=k + 2, n_init=5, max_iter=7, tol=0.5, norm="L2", random_state=rs + 1))
        try:
            with warnings.catch_warnings():
                warnings.simplefilter("ignore")
                r = m.fit(X) if w is None else m.fit(X, sample_weight=w)
            err = None
        except Exception as e:
            err = e
    finally:
        mod._centers_dense = real
    ctx.hit("hook._centers_dense", hook["calls"])
    ctx.hit("L1.fit")
    K = "C06/L1/"
    if hook["nan_other"]:
        ctx.violation(K + "m-step/non-finite-centre", "an M-step returned a non-finite centre for a non-empty cluster",
                      cfg=cfg)
    if err is not None:
        if hook["nan_empty"]:
            ctx.violation(K + "fit/empty-cluster-median-of-empty",
                          "fit raised %s after an M-step returned NaN for an empty cluster although the data has "
                          ">= k distinct rows: %s" % (type(err).__name__, str(err)[:120]), cfg=cfg)
        else:
            ctx.violation(K + "fit/raised/%s%s" % (type(err).__name__, "/n==k" if X.shape[0] == k else ""),
                          "fit raised on finite data with >= k distinct rows: %s" % str(err)[:200], cfg=cfg)
    else:
        ctx.check(r is m, K + "fit/returns-not-self", "fit did not return the estimator", cfg=cfg)
        C = numpy.asarray(m.cluster_centers_, dtype=float)
        lab = numpy.asarray(m.labels_)
        if C.shape != (k, X.shape[1]) or not numpy.isfinite(C).all():
            ctx.violation(K + "centres/non-finite" + ("/empty-cluster" if hook["nan_empty"] else ""),
                          "cluster_centers_ has shape %r / non-finite values" % (C.shape,), cfg=cfg)
        else:
            D = cdist(X.astype(float), C, "cityblock")
            dmin = D.min(axis=1)
            ctx.hit("L1.labels_nearest")
            if lab.shape != (len(X),) or lab.min() < 0 or lab.max() >= k:
                ctx.violation(K + "labels/invalid", "labels_ outside 0..k-1 or wrong shape", cfg=cfg)
            else:
                own = D[numpy.arange(len(X)), lab]
                bad = own > dmin * (1 + rt) + at
                if bad.any():
                    i = int(numpy.argmax(own - dmin))
                    ctx.violation(K + "labels/not-nearest-centre",
                                  "%d training points carry a label whose centre is not Manhattan-nearest "
                                  "(point %d: %.6g vs %.6g)" % (int(bad.sum()), i, own[i], dmin[i]), cfg=cfg,
                                  n_iter=m.n_iter_)
                ctx.hit("L1.inertia")
                scale = 2.0 if uniform_w else 1.0
                tot = float(dmin.sum())
                if not (abs(m.inertia_ - tot * scale) <= (1e-3 if f32 else 1e-9) * max(sc, tot * scale)):
                    ctx.violation(K + "inertia/not-sum-of-distances",
                                  "inertia_=%r, sum of distances to the nearest returned centre=%r" % (
                                      m.inertia_, tot * scale), cfg=cfg, n_iter=m.n_iter_)
            ctx.hit("L1.centre_range")
            lo, hi = X.min(axis=0).astype(float), X.max(axis=0).astype(float)
            eps = (1e-3 if f32 else 1e-9) * (sc + numpy.abs(hi))
            if ((C < lo - eps) | (C > hi + eps)).any():
                ctx.violation(K + "centres/outside-data-range", "a centre coordinate lies outside [min, max] of the "
                              "data", cfg=cfg, centres=C[:3], lo=lo, hi=hi)
            ctx.check(1 <= m.n_iter_ <= max_iter, K + "n_iter-out-of-range", "n_iter_=%r, max_iter=%r" % (
                m.n_iter_, max_iter), cfg=cfg)
            # integer-dtype query batches (counts, ids): same nearest-centre semantics
            if not f32:
                for qname, Qi in (("int64", numpy.round(Xq).astype(numpy.int64)),
                                  ("int-train-rows", numpy.round(X[:20]).astype(numpy.int64))):
                    try:
                        pi = numpy.asarray(m.predict(Qi))
                        Ti = numpy.asarray(m.transform(Qi), dtype=float)
                    except Exception as e:
                        ctx.violation(K + "predict/raised/%s/int-batch" % type(e).__name__, str(e)[:150], cfg=cfg)
                        continue
                    ctx.hit("L1.predict_int_batch")
                    Di = cdist(Qi.astype(float), C, "cityblock")
                    oi = Di[numpy.arange(len(Qi)), numpy.clip(pi, 0, k - 1)]
                    if pi.min() < 0 or pi.max() >= k or (oi > Di.min(axis=1) * (1 + 1e-9) + at).any():
                        ctx.violation(K + "predict/not-nearest-centre/int-batch", "predict on an integer-dtype batch "
                                      "(%s) returned a centre that is not Manhattan-nearest" % qname, cfg=cfg)
                    if Ti.shape != Di.shape or not numpy.allclose(Ti, Di, rtol=1e-9, atol=at):
                        ctx.violation(K + "transform/not-manhattan-distances/int-batch", "transform on an "
                                      "integer-dtype batch is not the Manhattan distance matrix", cfg=cfg)
            # predict / transform on new rows
            try:
                p = numpy.asarray(m.predict(Xq))
                T = numpy.asarray(m.transform(Xq), dtype=float)
                Dq = cdist(Xq.astype(float), C, "cityblock")
                ctx.hit("L1.predict")
                ownq = Dq[numpy.arange(len(Xq)), p] if p.min() >= 0 and p.max() < k else None
                if ownq is None or (ownq > Dq.min(axis=1) * (1 + rt) + at).any():
                    ctx.violation(K + "predict/not-nearest-centre", "predict returned a centre that is not "
                                  "Manhattan-nearest", cfg=cfg)
                ctx.hit("L1.transform")
                if T.shape != Dq.shape or not numpy.allclose(T, Dq, rtol=1e-4 if f32 else 1e-9,
                                                             atol=1e-2 * sc if f32 else at):
                    ctx.violation(K + "transform/not-manhattan-distances", "transform is not the matrix of Manhattan "
                                  "distances to the centres", cfg=cfg, got=T[0], expected=Dq[0])
                pt = numpy.asarray(m.predict(X))
                owt = D[numpy.arange(len(X)), pt]
                ctx.check(not (owt > dmin * (1 + rt) + at).any(),
                          K + "predict/not-nearest-centre", "predict on the training set is not nearest", cfg=cfg)
            except Exception as e:
                ctx.violation(K + "predict/raised/%s" % type(e).__name__, "%s: %s" % (type(e).__name__, e), cfg=cfg)
    # fit_transform is fit followed by transform (what a Pipeline calls on an intermediate step)
    if err is None and w is None and case["sub"] % 3 == 0:
        try:
            m2 = KMeansL1L2(n_clusters=k, init=init_l1, n_init=n_init, max_iter=max_iter, tol=tol, random_state=rs,
                            norm="L1")
            with warnings.catch_warnings():
                warnings.simplefilter("ignore")
                FT = numpy.asarray(m2.fit_transform(X), dtype=float)
            ctx.hit("L1.fit_transform")
            D2 = cdist(X.astype(float), numpy.asarray(m2.cluster_centers_, dtype=float), "cityblock")
            if FT.shape != D2.shape or not numpy.allclose(FT, D2, rtol=1e-4 if f32 else 1e-9,
                                                          atol=1e-2 * sc if f32 else at):
                ctx.violation(K + "fit_transform/not-manhattan-distances", "fit_transform(X) is not the matrix of "
                              "Manhattan distances to the fitted centres (what fit(X).transform(X) returns)", cfg=cfg)
        except Exception as e:
            ctx.violation(K + "fit_transform/raised/%s" % type(e).__name__, str(e)[:150], cfg=cfg)
    ctx.check(numpy.array_equal(X, Xk), "C06/input-modified", "fit/predict wrote into X (copy_x=True)", cfg=cfg)

    # ---- L2: exactly KMeans
    if not f32 or True:
        kw = dict(n_clusters=k, init=init, n_init=n_init, max_iter=max_iter, tol=tol, random_state=rs)
        if case["sub"] % 3 == 1:
            kw["algorithm"] = "elkan"      # KMeans' other algorithm: the L2 norm is KMeans, whatever it is asked to run
            cfg["algorithm_L2"] = "elkan"
        if case["sub"] % 5 == 2:
            kw["n_init"] = "auto"      # scikit-learn's default: 10 restarts for a random / callable init, 1 otherwise
            cfg["n_init_L2"] = "auto"
        # the seed as an int, as a RandomState object (two objects in the same state) or None after numpy.random.seed
        rsk = ["int", "int", "RandomState-object", "None-after-global-seed"][(case["sub"] // 4) % 4]
        cfg["random_state_kind"] = rsk
        kw_int = {k_: v_ for k_, v_ in dict(kw, n_init=n_init).items() if k_ != "algorithm"}      # the history clause below builds further models (L1 ones too): it keeps the
        #                                      plain integer seed and an integer n_init
        try:
            if rsk == "RandomState-object":
                kw = dict(kw, random_state=numpy.random.RandomState(rs))
            elif rsk == "None-after-global-seed":
                kw = dict(kw, random_state=None)
            a = layouts.build(KMeansL1L2, dict(kw, norm="L2"), via and rsk == "int", as_numpy_scalars=(case["sub"] // 7) % 3 == 0, decoys=dict(n_clusters=k + 1, norm="L1", n_init=4))
            b = KMeans(**(kw if rsk != "RandomState-object" else dict(kw, random_state=numpy.random.RandomState(rs))))
            with warnings.catch_warnings():
                warnings.simplefilter("ignore")
                for mdl in (a, b):
                    if rsk == "None-after-global-seed":
                        numpy.random.seed(rs)
                    if w is None:
                        mdl.fit(X)
                    else:
                        mdl.fit(X, sample_weight=w)
        except Exception as e:
            ctx.violation("C06/L2/raised/%s" % type(e).__name__, "%s: %s" % (type(e).__name__, str(e)[:200]), cfg=cfg)
            return
        ctx.hit("L2.equal_to_kmeans")
        diffs = []
        if not numpy.array_equal(a.labels_, b.labels_):
            diffs.append("labels_")
        if not numpy.array_equal(a.cluster_centers_, b.cluster_centers_):
            diffs.append("cluster_centers_")
        if a.inertia_ != b.inertia_:
            diffs.append("inertia_")
        if a.n_iter_ != b.n_iter_:
            diffs.append("n_iter_")
        if not numpy.array_equal(a.predict(Xq), b.predict(Xq)):
            diffs.append("predict")
        if not numpy.array_equal(a.transform(Xq), b.transform(Xq)):
            diffs.append("transform")
        if diffs:
            ctx.violation("C06/L2/differs-from-KMeans/%s" % diffs[0], "norm='L2' differs from KMeans in %s" % diffs,
                          cfg=cfg)
        # ---- the other entry points, with the same weights: fit_transform and fit_predict are KMeans' too
        if rsk == "int":
            wq = w if w is not None else (numpy.random.RandomState(rs).rand(len(X)) * 3 + 0.2 if case["sub"] % 2 else None)
            for entry in ("fit_transform", "fit_predict"):
                try:
                    with warnings.catch_warnings():
                        warnings.simplefilter("ignore")
                        ea, eb = KMeansL1L2(norm="L2", **kw_int), KMeans(**kw_int)
                        ra = getattr(ea, entry)(X) if wq is None else getattr(ea, entry)(X, sample_weight=wq)
                        rb = getattr(eb, entry)(X) if wq is None else getattr(eb, entry)(X, sample_weight=wq)
                except Exception as e:
                    ctx.violation("C06/L2/%s/raised/%s" % (entry, type(e).__name__), str(e)[:150], cfg=cfg)
                    continue
                ctx.hit("L2.entry_points")
                # (labels, centres and inertia exactly; the distance matrix up to rounding: scikit-learn's own fit_transform
                # and fit().transform() differ by 4e-15 on a Fortran-ordered matrix, and the expanded form of the squared
                # distance turns that into 2e-8 for a point that sits on its centre)
                ra_, rb_ = numpy.asarray(ra), numpy.asarray(rb)
                same_r = numpy.array_equal(ra_, rb_) if entry == "fit_predict" else (
                    ra_.shape == rb_.shape and numpy.allclose(ra_, rb_, rtol=1e-7, atol=1e-6 * float(numpy.abs(rb_).max() or 1)))
                if not same_r or ea.inertia_ != eb.inertia_ or \
                        not numpy.array_equal(ea.cluster_centers_, eb.cluster_centers_):
                    ctx.violation("C06/L2/differs-from-KMeans/%s%s" % (entry, "/weighted" if wq is not None else ""),
                                  "norm='L2': %s(X%s) differs from KMeans.%s with the same arguments" % (
                                      entry, ", sample_weight=w" if wq is not None else "", entry), cfg=cfg)
        # ---- history: a fit under the other norm that is refused changes nothing of what predict / transform answer
        if not f32 and isinstance(init, str):
            for first, other in (("L2", "L1"), ("L1", "L2")):
                fault = ["nan", "weights", "too-few-rows"][(case["sub"] // 7 + (first == "L1")) % 3]
                try:
                    h = KMeansL1L2(norm=first, **kw_int)
                    with warnings.catch_warnings():
                        warnings.simplefilter("ignore")
                        h.fit(X)
                    C0 = numpy.array(h.cluster_centers_, dtype=float)
                    h.set_params(norm=other)
                    try:
                        with warnings.catch_warnings():
                            warnings.simplefilter("ignore")
                            if fault == "nan":
                                Xb = X.copy()
                                Xb[0, 0] = numpy.nan
                                h.fit(Xb)
                            elif fault == "weights":
                                h.fit(X, sample_weight=numpy.arange(1.0, len(X) + 1))
                            else:
                                h.fit(X[:max(k - 1, 0)])
                        refused = False
                    except Exception:
                        refused = True
                    if not refused or not numpy.array_equal(C0, numpy.asarray(h.cluster_centers_, dtype=float)):
                        ctx.excluded("history clause: the fit under the other norm was not refused / replaced the centres")
                        continue
                    h.set_params(norm=first)
                    ph, Th = numpy.asarray(h.predict(Xq)), numpy.asarray(h.transform(Xq), dtype=float)
                except Exception as e:
                    ctx.violation("C06/%s/history/raised/%s" % (first, type(e).__name__), "fit %s, set_params(norm=%s), "
                                  "refused fit (%s), set_params(norm=%s), predict raised: %s" % (
                                      first, other, fault, first, str(e)[:120]), cfg=cfg)
                    continue
                ctx.hit("history.refused_fit_other_norm")
                if first == "L1":
                    Dh = cdist(Xq.astype(float), C0, "cityblock")
                    own = Dh[numpy.arange(len(Xq)), numpy.clip(ph, 0, k - 1)]
                    wrong = ph.min() < 0 or ph.max() >= k or (own > Dh.min(axis=1) * (1 + 1e-9) + at).any() or \
                        Th.shape != Dh.shape or not numpy.allclose(Th, Dh, rtol=1e-9, atol=at)
                else:
                    with warnings.catch_warnings():
                        warnings.simplefilter("ignore")
                        hb = KMeans(**kw_int).fit(X)
                    wrong = not numpy.array_equal(ph, hb.predict(Xq)) or not numpy.array_equal(Th, hb.transform(Xq))
                if wrong:
                    ctx.violation("C06/%s/history/predict-or-transform-follows-the-refused-fit" % first,
                                  "after fit(norm=%s), set_params(norm=%s), a refused fit (%s) and set_params(norm=%s) "
                                  "predict / transform no longer use the %s distance to the fitted centres" % (
                                      first, other, fault, first, first), cfg=cfg)
    if k >= 2 and X.shape[0] > k:
        ctx.nontriv(cfg)
    ctx.sample({"cfg": cfg, "m_steps_observed": hook["calls"]})


def evaluations(counters, ncases):
    return int(counters.get("L1.fit", 0) + counters.get("L2.equal_to_kmeans", 0))
