"""C04 - predictions are a pure per-row function of the model and survive persistence.

For every fitted registered estimator with row-wise methods: the output of a batch is compared, row by
row, with the same call on single rows, on random subsets, on a permutation and on a second call; the
fitted state is fingerprinted before/after every call; a pickle round trip and the library's
clone_with_fitted_parameters must give identical outputs.  ConstraintKMeans(balanced_predictions=True) is
the documented exception: it is monitored too, and only recorded.  The compiled criteria are deep-copied
and reused under the ASan build.
"""
import pickle
import warnings

import numpy

PROPERTY = "C04"
LEVEL = "exploration"
NEED_EXT = True
REQUIRED = ["rows.single", "rows.subset", "rows.permutation", "rows.ordered_batches", "rows.repeat", "state.unchanged", "pickle",
            "clone_with_fitted_parameters", "exception.balanced_predictions", "asan.criterion_copy", "accessors.pure", "rows.buffer_refilled_in_place", "poisoned_allocator", "upstream.rowwise_calls_judged", "second_life.copies", "refusing_local.batches", "rows.earlier_result_kept"]
RULE = ("every registered class with row-wise methods x configurations x label sets x batches made of training rows, "
        "perturbed rows, far rows (buckets / cells / leaves unseen at training time), exact duplicates and a single "
        "row; non-trivial = batch with >= 2 distinct rows routed to different buckets or classes; distinct = distinct "
        "(class, configuration, data, method)")
ASSUMPTIONS = ["float outputs compared with rtol 1e-9 / atol 1e-12 (BLAS may pick another kernel for 1 row); integer "
               "outputs compared exactly except rows whose decision margin (top-two probability or distance gap) is "
               "below 1e-9, which are counted as near ties",
               "clone_with_fitted_parameters refuses objects holding callables by design: skipped and counted",
               "time-series regressors are not row-wise (a prediction uses the previous rows) and are not in this check"]
CASE_TIMEOUT = 300


def cases(tier, seed):
    from vrt import registry
    from vrt.props.c02 import FITTABLE
    out = []
    n = 2 if tier == "quick" else 10
    for name in FITTABLE:
        if name == "DummyTimeSeriesRegressor":
            continue
        for k in range(n):
            out.append({"gen": "rows", "id": "rows-%s-%d" % (name, k), "cls": name, "sub": seed * 1009 + k})
    for k in range(4 if tier == "quick" else 24):
        out.append({"gen": "balanced", "id": "balanced-%d" % k, "sub": seed * 1009 + k})
    for k in range(3):
        out.append({"gen": "criterion", "id": "criterion-asan-%d" % k, "sub": seed * 1009 + k, "flavour": "asan"})
    for k in range(6 if tier == "quick" else 40):
        out.append({"gen": "refusing", "id": "refusing-local-%d" % k, "sub": seed * 1009 + k})
    # upstream's own tests as a workload: every row-wise call they make on a registered class is judged
    from vrt.props.c02 import UPSTREAM_QUICK, upstream_files
    for f in upstream_files(UPSTREAM_QUICK[:6] if tier == "quick" else None):
        out.append({"gen": "upstream", "id": "upstream-%s" % f.replace("/", "-"), "file": f})
    return out


def take(Q, idx):
    from vrt.registry import Spec
    return Spec.take(Q, idx)


def nrows(Q):
    from vrt.registry import Spec
    return Spec.nrows(Q)


def row_equal(a, b, integer):
    a, b = numpy.asarray(a), numpy.asarray(b)
    if a.shape != b.shape:
        return False
    if a.dtype == object or b.dtype == object:
        return all((x is None and y is None) or (isinstance(x, float) and isinstance(y, float) and x != x and y != y)
                   or x == y for x, y in zip(a.ravel().tolist(), b.ravel().tolist()))
    if integer or a.dtype.kind in "USb" or b.dtype.kind in "USb":
        return bool(numpy.array_equal(a, b))
    # scikit-learn's expanded Euclidean distance and BLAS kernels round differently for different batch sizes
    # (observed 6e-9 relative in KMeans.transform): that is not a dependence on the other rows' values
    return bool(numpy.allclose(a, b, rtol=1e-7, atol=1e-9, equal_nan=True))


def margins(spec, est, Q):
    """Per-row decision margin, or None when the method has no natural margin."""
    try:
        if hasattr(est, "predict_proba") and "predict_proba" in spec.methods:
            P = numpy.sort(numpy.asarray(est.predict_proba(Q)), axis=1)
            return P[:, -1] - P[:, -2] if P.shape[1] > 1 else None
        if spec.name in ("KMeansL1L2", "ConstraintKMeans"):
            T = numpy.sort(numpy.asarray(est.transform(Q)), axis=1)
            return T[:, 1] - T[:, 0] if T.shape[1] > 1 else None
    except Exception:
        return None
    return None


EXTRA_MODULES = {
    "ExtendedFeatures": ("mlinsights.mlmodel._extended_features_polynomial",),
    "KMeansL1L2": ("mlinsights.mlmodel._kmeans_022",),
    "ConstraintKMeans": ("mlinsights.mlmodel._kmeans_constraint_",),
    "PiecewiseTreeRegressor": (),
    "TransformedTargetRegressor2": ("mlinsights.mlmodel.sklearn_transform_inv_fct",),
    "TransformedTargetClassifier2": ("mlinsights.mlmodel.sklearn_transform_inv_fct",),
    "DummyTimeSeriesRegressor": ("mlinsights.timeseries.utils", "mlinsights.timeseries.base"),
    "ARTimeSeriesRegressor": ("mlinsights.timeseries.utils", "mlinsights.timeseries.base"),
}


def label_variants(D):
    out = [("as-is", D)]
    y = D.get("y")
    if isinstance(y, numpy.ndarray) and y.dtype.kind in "iu" and len(numpy.unique(y)) <= 3:
        table = {v: t for v, t in zip(sorted(numpy.unique(y).tolist()), (-1, 1, 5))}
        out.append(("labels -1/+1/5", dict(D, y=numpy.array([table[v] for v in y.tolist()]))))
        out.append(("float labels -1./2./7.", dict(D, y=numpy.array([float(table[v]) * 2 + 1 if table[v] > 0 else -1.0
                                                                     for v in y.tolist()]))))
        names = {v: t for v, t in zip(sorted(numpy.unique(y).tolist()), ("no", "yes", "perhaps"))}
        out.append(("string labels of unequal length", dict(D, y=numpy.array([names[v] for v in y.tolist()]))))
    return out


def run_rows(case, ctx):
    from vrt.props.c01 import same_out
    from vrt import registry
    from vrt.props.c03 import state
    from mlinsights.mlmodel.sklearn_testing import clone_with_fitted_parameters
    spec = registry.get(case["cls"])
    if not spec.rowwise:
        return
    K = "C04/%s/" % spec.name
    sub = case["sub"]
    rng = numpy.random.RandomState(sub + 5)
    for vi in range(len(spec.variants)):
        for dname, maker in (("A", spec.data), ("B", spec.data_b)):
            for lname, D in label_variants(maker(numpy.random.RandomState(sub + 1))):
                cfg = {"class": spec.name, "variant": vi, "data": dname, "labels": lname, "sub": sub}
                est = spec.make(vi)
                try:
                    numpy.random.seed(sub + 3)
                    spec.fit(est, D)
                except Exception as e:
                    if lname != "as-is":
                        ctx.excluded("label set not supported by this estimator")
                        continue
                    ctx.violation(K + "fit/raised/%s" % type(e).__name__, str(e)[:150], cfg=cfg)
                    continue
                try:
                    blob0 = pickle.dumps(est)       # the model as it is when fit returns
                except Exception:
                    blob0 = None
                Q = spec.query(rng, D)
                n = nrows(Q)
                # tree-based models: rows placed on the split thresholds and within half a float32 ulp of them
                # (scikit-learn compares the float32 cast of a feature with the threshold)
                trees_ = [t_ for t_ in (getattr(est, "tree_", None), getattr(getattr(est, "binner_", None), "tree_", None))
                          if t_ is not None and hasattr(t_, "threshold") and hasattr(t_, "children_left")]
                if trees_ and isinstance(Q, numpy.ndarray) and Q.ndim == 2 and Q.dtype == numpy.float64:
                    extra_ = []
                    t_ = trees_[0]
                    for node_ in numpy.where(t_.children_left != -1)[0][:12]:
                        f_, th_ = int(t_.feature[node_]), float(t_.threshold[node_])
                        if f_ >= Q.shape[1]:
                            continue
                        th32 = float(numpy.float32(th_))
                        for v_ in (th32, th32 * (1 + 2e-8) if th32 else 1e-46, th32 * (1 - 2e-8) if th32 else -1e-46):
                            r_ = Q[rng.randint(n)].copy()
                            r_[f_] = v_
                            extra_.append(r_)
                    if extra_:
                        Q = numpy.vstack([Q] + [numpy.array(extra_)])
                        n = nrows(Q)
                exact_l1 = spec.name == "KMeansL1L2" and getattr(est, "norm", None) == "L1"
                if exact_l1 and isinstance(Q, numpy.ndarray) and Q.ndim == 2 and hasattr(est, "cluster_centers_"):
                    # rows at EXACTLY the same Manhattan distance from two centres (sums of absolute differences are
                    # computed row by row, an exact tie is an exact tie in every batch): midpoints of pairs of centres,
                    # kept when the two distances are equal to the last bit and no other centre is nearer
                    C_ = numpy.asarray(est.cluster_centers_, dtype=float)
                    ties_ = []
                    for i_ in range(len(C_)):
                        for j_ in range(i_ + 1, len(C_)):
                            for lam in (0.5,):
                                m_ = (C_[i_] + C_[j_]) * lam
                                d_ = numpy.abs(C_ - m_).sum(axis=1)
                                if d_[i_] == d_[j_] and d_[i_] <= d_.min():
                                    ties_.append(m_)
                    if ties_:
                        Q = numpy.vstack([Q] + [numpy.array(ties_[:4]).astype(Q.dtype)] * 2)
                        n = nrows(Q)
                        ctx.hit("rows.exact_ties", len(ties_))
                if n >= 3:
                    Q = take(Q, list(range(n)) + [0, 1, 1])   # exact duplicates
                    n = nrows(Q)
                marg = margins(spec, est, Q)
                unsupported = False
                for m in spec.rowwise:
                    if m == "predict_leaves" and not hasattr(est, "leaves_index_"):
                        continue
                    s0 = state(est)
                    try:
                        full = spec.outputs(est, Q, [m])[m]
                    except Exception as e:
                        if lname != "as-is":
                            ctx.excluded("label set not supported by this estimator")   # e.g. predict casts to int32
                            unsupported = True
                            continue
                        ctx.violation(K + "%s/raised/%s" % (m, type(e).__name__), "batch call raised: %s" % str(e)[:150],
                                      cfg=cfg)
                        continue
                    integer = full.dtype.kind in "iub"
                    c2 = dict(cfg, method=m)

                    # ExtendedFeatures multiplies columns element by element (no BLAS, no reduction): what a row gets is
                    # the same to the last bit in every batch, every layout
                    exact_rows = spec.name == "ExtendedFeatures"

                    def judge(i, got_row, how):
                        if exact_rows:
                            if numpy.array_equal(numpy.asarray(full[i]), numpy.asarray(got_row), equal_nan=True):
                                return True
                        elif row_equal(full[i], got_row, integer):
                            return True
                        if integer and marg is not None and marg[i] < 1e-9 and not (exact_l1 and marg[i] == 0.0):
                            ctx.excluded("near-tie-row")
                            return True
                        ctx.violation(K + "%s/batch-dependent/%s" % (m, how),
                                      "row %d of the batch: %r in the batch of %d rows, %r %s" % (
                                          i, numpy.asarray(full[i]).ravel()[:4].tolist(), n,
                                          numpy.asarray(got_row).ravel()[:4].tolist(), how), cfg=c2)
                        return False

                    ok = True
                    try:
                        idx = sorted(set(rng.randint(n, size=min(n, 10)).tolist()) | {0, n - 1})
                        for i in idx:
                            ctx.hit("rows.single")
                            one = spec.outputs(est, take(Q, [i]), [m])[m]
                            if len(one) != 1 or not judge(i, one[0], "alone"):
                                ok = False
                                break
                        if ok and isinstance(Q, numpy.ndarray) and Q.ndim == 2 and Q.dtype.kind == "f" and n >= 2:
                            # the same rows as a column-major batch and as every other row of a longer buffer
                            big_ = numpy.zeros((2 * n, Q.shape[1]), dtype=Q.dtype)
                            big_[::2] = Q
                            for lname_, Ql in (("fortran-ordered", numpy.asfortranarray(Q)), ("strided", big_[::2])):
                                try:
                                    lout = spec.outputs(est, Ql, [m])[m]
                                except Exception:
                                    ctx.excluded("batch layout refused by this method")
                                    continue
                                ctx.hit("rows.layout_of_the_batch")
                                for i in range(n):
                                    if not judge(i, lout[i], "in-a-%s-batch" % lname_):
                                        ok = False
                                        break
                        for _ in range(3):
                            if not ok or n < 3:
                                break
                            S = sorted(set(rng.choice(n, size=max(2, n // 2), replace=False).tolist()))
                            ctx.hit("rows.subset")
                            sub_out = spec.outputs(est, take(Q, S), [m])[m]
                            for pos, i in enumerate(S):
                                if not judge(i, sub_out[pos], "in a subset of %d rows" % len(S)):
                                    ok = False
                                    break
                        if ok and n >= 2:
                            perm = rng.permutation(n).tolist()
                            ctx.hit("rows.permutation")
                            pout = spec.outputs(est, take(Q, perm), [m])[m]
                            for pos, i in enumerate(perm):
                                if not judge(i, pout[pos], "in a permuted batch"):
                                    ok = False
                                    break
                        if ok and n >= 4 and isinstance(Q, numpy.ndarray) and Q.ndim == 2 and Q.dtype.kind in "fiu":
                            # batches that come in an ORDER (a grid, a table sorted by a feature or by the score): the whole
                            # sorted batch, every other row of it (a sorted batch with holes), its two ends - both ways
                            keys_ = {"sorted-by-first-feature": numpy.asarray(Q[:, 0], dtype=float)}
                            try:
                                keys_["sorted-by-own-output"] = numpy.asarray(full, dtype=float).reshape(n, -1)[:, 0]
                            except Exception:
                                pass
                            for oname, kv in keys_.items():
                                order = numpy.argsort(kv, kind="stable").tolist()
                                for sel in (order, order[::2], order[::3], [order[0], order[-1]], order[::-1],
                                            [order[-1], order[0]], [order[0], order[n // 2], order[-1]]):
                                    if not ok:
                                        break
                                    ctx.hit("rows.ordered_batches")
                                    sout = spec.outputs(est, take(Q, sel), [m])[m]
                                    for pos, i in enumerate(sel):
                                        if not judge(i, sout[pos], "in-an-ordered-batch/%s" % oname):
                                            ok = False
                                            break
                        if ok:
                            ctx.hit("rows.repeat")
                            again = spec.outputs(est, Q, [m])[m]
                            if again.shape != full.shape or not all(
                                    row_equal(full[i], again[i], integer) for i in range(n)):
                                ctx.violation(K + "%s/repeated-call-differs" % m, "two identical calls differ", cfg=c2)
                        if ok and n >= 2:
                            # a result the caller still holds is not overwritten by the next call (single rows:
                            # featurising a table row by row and stacking the results)
                            r0 = spec.outputs(est, take(Q, [0]), [m])[m]
                            keep0 = numpy.array(r0, copy=True)
                            r1 = spec.outputs(est, take(Q, [n - 1]), [m])[m]
                            ctx.hit("rows.earlier_result_kept")
                            if not row_equal(keep0, r0, integer) or (
                                    isinstance(r0, numpy.ndarray) and isinstance(r1, numpy.ndarray)
                                    and r0.size and numpy.shares_memory(r0, r1)):
                                ctx.violation(K + "%s/earlier-result-overwritten" % m, "the result of a call on one row "
                                              "changed when the next row was asked: results share a buffer", cfg=c2)
                        if ok and isinstance(Q, numpy.ndarray) and Q.dtype == numpy.float64:
                            # a batch of another floating type in between (float32 sensors): the model answers the
                            # float64 batch afterwards as it did before
                            try:
                                spec.outputs(est, Q.astype(numpy.float32), [m])
                                spec.outputs(est, numpy.asfortranarray(Q), [m])
                            except Exception:
                                ctx.excluded("float32 / Fortran batches refused by this method")
                            ctx.hit("rows.other_dtype_in_between")
                            again = spec.outputs(est, Q, [m])[m]
                            if again.shape != full.shape or not all(
                                    row_equal(full[i], again[i], integer) for i in range(n)):
                                ctx.violation(K + "%s/repeated-call-differs/after-float32-batch" % m, "the same float64 "
                                              "batch is answered differently after a float32 batch was served", cfg=c2)
                        if ok and isinstance(Q, numpy.ndarray) and n >= 2:
                            # the same array object, refilled in place between two calls (a preallocated batch
                            # buffer): the answer follows the content, not the identity of the container
                            buf = Q.copy()
                            first = spec.outputs(est, buf, [m])[m]
                            perm2 = numpy.roll(numpy.arange(n), 1)
                            buf[:] = Q[perm2]
                            second = spec.outputs(est, buf, [m])[m]
                            ctx.hit("rows.buffer_refilled_in_place")
                            for pos, i in enumerate(perm2.tolist()):
                                if not judge(i, second[pos], "in the same buffer refilled in place"):
                                    break
                            del first
                    except Exception as e:
                        ctx.violation(K + "%s/raised/%s" % (m, type(e).__name__),
                                      "a sub-batch call raised although the batch call works: %s" % str(e)[:150],
                                      cfg=c2)
                        continue
                    ctx.hit("state.unchanged")
                    if state(est) != s0:
                        ctx.violation(K + "%s/changes-fitted-state" % m, "%s changed the fitted state of the model" % m,
                                      cfg=c2)
                    if len(numpy.unique(numpy.asarray(full).astype(str), axis=0)) >= 2:
                        ctx.nontriv(spec.name, vi, dname, lname, m)
                if unsupported:
                    continue
                # ---- a history that mixes the methods: one of them is refused (a batch of another width) or serves a
                # DataFrame with its own column names; every method then answers the batch - given as an array and as a
                # frame with OTHER names - as it did before (a model fitted on an array has no names to compare with)
                if spec.kind == "xy" and isinstance(Q, numpy.ndarray) and Q.ndim == 2 and Q.dtype.kind == "f" and \
                        isinstance(D.get("X"), numpy.ndarray):
                    import pandas
                    meths = [m for m in spec.rowwise if not (m == "predict_leaves" and not hasattr(est, "leaves_index_"))]
                    try:
                        ref_all = spec.outputs(est, Q, meths)
                    except Exception:
                        ref_all = None
                    # what the model answers when the same batch comes as a frame, BEFORE the history (a frame hands its
                    # values over column-major: last-bit differences with the array answer are a container matter, the
                    # clause is about what the history changes)
                    ref_frame = {}
                    with warnings.catch_warnings():
                        warnings.simplefilter("ignore")
                        for m_ in meths if ref_all is not None else ():
                            try:
                                ref_frame[m_] = spec.outputs(est, pandas.DataFrame(
                                    Q, columns=["q%d" % j for j in range(Q.shape[1])]), [m_])[m_]
                            except Exception:
                                pass
                    for mb, pre in [(mb_, pre_) for mb_ in meths for pre_ in ("refused", "frame", "both")] \
                            if ref_all is not None else ():
                        if pre in ("refused", "both"):
                            try:
                                getattr(est, mb)(numpy.ones((2, Q.shape[1] + 1)))
                            except Exception:
                                ctx.hit("rows.mixed_methods.refused_call")
                        with warnings.catch_warnings():
                            warnings.simplefilter("ignore")
                            if pre in ("frame", "both"):
                                try:
                                    getattr(est, mb)(pandas.DataFrame(Q, columns=["p%d" % j for j in range(Q.shape[1])]))
                                except Exception:
                                    pass
                            # (the other methods first: calling the same method again may put right what it left)
                            for m in [m_ for m_ in meths if m_ != mb] + [mb]:
                                for cname, Qc in (("array", Q), ("frame-with-other-names", pandas.DataFrame(
                                        Q, columns=["q%d" % j for j in range(Q.shape[1])]))):
                                    try:
                                        again = spec.outputs(est, Qc, [m])[m]
                                    except Exception as e:
                                        if cname == "array":
                                            ctx.violation(K + "%s/raised-after-other-method/%s" % (m, type(e).__name__),
                                                          "%s answered this batch; after a refused %s call and a %s call "
                                                          "on a DataFrame it raises: %s" % (m, mb, mb, str(e)[:120]), cfg=cfg)
                                            continue
                                        try:
                                            fresh_ok = blob0 is not None
                                            if fresh_ok:
                                                spec.outputs(pickle.loads(blob0), Qc, [m])
                                        except Exception:
                                            fresh_ok = False
                                        if fresh_ok:
                                            ctx.violation(K + "%s/raised-after-other-method/%s/frame" % (m, type(e).__name__),
                                                          "a copy of the model taken after fit answers this DataFrame with "
                                                          "%s; the model itself, after a refused %s call and a %s call on a "
                                                          "frame with other names, raises: %s" % (m, mb, mb, str(e)[:120]),
                                                          cfg=cfg)
                                        continue
                                    ctx.hit("rows.mixed_methods")
                                    ref_m = ref_all[m] if cname == "array" else ref_frame.get(m)
                                    if ref_m is None:
                                        continue
                                    integer_ = numpy.asarray(ref_m).dtype.kind in "iub"
                                    if numpy.shape(again) != numpy.shape(ref_m) or not all(
                                            row_equal(ref_m[i], again[i], integer_) for i in range(n)):
                                        ctx.violation(K + "%s/changed-by-other-method" % m, "%s answers the same batch (%s) "
                                                      "differently after a refused %s call and a %s call on a DataFrame" % (
                                                          m, cname, mb, mb), cfg=cfg)
                # ---- reading a property / calling an accessor is an observation: it changes no later answer
                try:
                    o_before = spec.outputs(est, Q, list(spec.methods))
                    g1 = spec.getters(est, Q)
                    g2 = spec.getters(est, Q)
                    o_after = spec.outputs(est, Q, list(spec.methods))
                    if g1:
                        ctx.hit("accessors.pure")
                        badg = [g for g in g1 if g not in g2 or not same_out(g1[g], g2[g])]
                        if badg:
                            ctx.violation(K + "accessor/repeated-call-differs", "%s gives two different answers when "
                                          "read twice" % badg[0], cfg=cfg)
                        bad = [m for m in o_before if m not in o_after or not same_out(o_before[m], o_after[m])]
                        if bad:
                            ctx.violation(K + "accessor/changes-later-outputs", "%s differs before and after reading "
                                          "%s" % (bad[0], ", ".join(sorted(g1))), cfg=cfg)
                except Exception as e:
                    ctx.violation(K + "accessor/raised/%s" % type(e).__name__, str(e)[:150], cfg=cfg)
                # ---- poisoned allocator: what the model answers does not depend on what numpy.empty hands over
                try:
                    from vrt.poison import Poison
                    mods = sorted({k.__module__ for k in type(est).__mro__ if k.__module__.startswith("mlinsights")}
                                  | set(EXTRA_MODULES.get(spec.name, ())))
                    plain = spec.outputs(est, Q, list(spec.methods))
                    with Poison(mods) as pz:
                        poisoned = spec.outputs(est, Q, list(spec.methods))
                    ctx.hit("poisoned_allocator")
                    ctx.extra["poisoned_buffers"] = ctx.extra.get("poisoned_buffers", 0) + pz.allocations
                    bad = [m for m in plain if m not in poisoned or not same_out(plain[m], poisoned[m])]
                    if bad:
                        ctx.violation(K + "%s/reads-uninitialised-memory" % bad[0], "%s changes when the buffers "
                                      "obtained from numpy.empty are pre-filled with a sentinel: part of an output "
                                      "buffer is never written" % bad[0], cfg=cfg)
                except Exception as e:
                    ctx.violation(K + "poisoned-allocator/raised/%s" % type(e).__name__, str(e)[:150], cfg=cfg)
                # ---- persistence
                ref = None
                try:
                    ref = spec.outputs(est, Q)
                except Exception:
                    pass
                if ref is None:
                    continue
                try:
                    e2 = pickle.loads(pickle.dumps(est))
                    ctx.hit("pickle")
                    o2 = spec.outputs(e2, Q)
                    bad = [m for m in ref if not (same_out(ref[m], o2[m]) if m.startswith("getter:") else all(
                        row_equal(ref[m][i], o2[m][i], ref[m].dtype.kind in "iub") for i in range(n)))]
                    if bad:
                        ctx.violation(K + "pickle/outputs-differ", "%s differs after a pickle round trip" % bad[0],
                                      cfg=cfg)
                except Exception as e:
                    if "pickle" in str(e).lower() or isinstance(e, (pickle.PicklingError, AttributeError, TypeError)) \
                            and any(callable(v) and getattr(v, "__name__", "") == "<lambda>"
                                    for v in est.get_params().values()):
                        ctx.excluded("pickle: the configuration holds a lambda")
                    else:
                        ctx.hit("pickle")
                        ctx.violation(K + "pickle/raised/%s" % type(e).__name__, "pickle round trip raised: %s" % (
                            str(e)[:150]), cfg=cfg)
                try:
                    e3 = clone_with_fitted_parameters(est)
                except RuntimeError as e:
                    ctx.excluded("clone_with_fitted_parameters refuses this object (%s)" % str(e)[:40])
                    e3 = None
                except Exception as e:
                    ctx.hit("clone_with_fitted_parameters")
                    ctx.violation(K + "clone_with_fitted/raised/%s" % type(e).__name__, str(e)[:150], cfg=cfg)
                    e3 = None
                if e3 is not None:
                    ctx.hit("clone_with_fitted_parameters")
                    try:
                        o3 = spec.outputs(e3, Q)
                        bad = [m for m in ref if not (same_out(ref[m], o3[m]) if m.startswith("getter:") else all(
                            row_equal(ref[m][i], o3[m][i], ref[m].dtype.kind in "iub") for i in range(n)))]
                        if bad:
                            ctx.violation(K + "clone_with_fitted/outputs-differ",
                                          "%s of the clone with fitted parameters differs from the original" % bad[0],
                                          cfg=cfg)
                        if e3 is est:
                            ctx.violation(K + "clone_with_fitted/not-a-copy", "returned the same object", cfg=cfg)
                    except Exception as e:
                        ctx.violation(K + "clone_with_fitted/unusable/%s" % type(e).__name__,
                                      "the clone with fitted parameters cannot predict: %s" % str(e)[:150], cfg=cfg)
    # ---- second life: the same object fitted, queried, fitted again on the other training set; its pickled copy and its
    # clone with fitted parameters answer like the object itself (a memo that survives the refit lives only in one)
    for vi in range(len(spec.variants)):
        cfg = {"class": spec.name, "variant": vi, "history": "fit A, query, fit B, then copies", "sub": sub}
        try:
            est = spec.make(vi)
            A_, B_ = spec.data(numpy.random.RandomState(sub + 1)), spec.data_b(numpy.random.RandomState(sub + 2))
            numpy.random.seed(sub + 3)
            spec.fit(est, A_)
            spec.outputs(est, spec.query(numpy.random.RandomState(sub + 4), A_))
            numpy.random.seed(sub + 3)
            spec.fit(est, B_)
            Q = spec.query(numpy.random.RandomState(sub + 4), B_)
            ref = spec.outputs(est, Q)
        except Exception:
            ctx.excluded("second life: refit not possible for this configuration")
            continue
        for how, mk in (("pickle", lambda: pickle.loads(pickle.dumps(est))),
                        ("clone_with_fitted", lambda: clone_with_fitted_parameters(est))):
            try:
                cp = mk()
                oc = spec.outputs(cp, Q)
            except Exception:
                ctx.excluded("second life: %s not possible" % how)
                continue
            ctx.hit("second_life.copies")
            bad = [m for m in ref if m not in oc or not same_out(ref[m], oc[m])]
            if bad:
                ctx.violation(K + "%s/outputs-differ/after-refit" % how, "after fit, query and a refit of the same "
                              "object, %s of its %s copy differs from the object's own" % (bad[0], how), cfg=cfg)
    ctx.cls("class=" + spec.name)
    ctx.sample({"class": spec.name, "methods": list(spec.rowwise)})


def run_balanced(case, ctx):
    """The documented exception, monitored so that it stays the only one: balanced predictions may depend on
    the batch; nothing is judged except that the call works and returns valid labels."""
    from mlinsights.mlmodel import ConstraintKMeans
    rng = numpy.random.RandomState(case["sub"])
    X = rng.randn(40, 2)
    m = ConstraintKMeans(n_clusters=3, strategy="distance", balanced_predictions=True, random_state=0, n_init=1,
                         max_iter=5).fit(X)
    Q = rng.randn(12, 2)
    numpy.random.seed(1)
    full = m.predict(Q)
    dep = 0
    for i in range(len(Q)):
        numpy.random.seed(1)
        one = m.predict(Q[i:i + 1])
        dep += int(one[0] != full[i])
    ctx.hit("exception.balanced_predictions")
    ctx.check(full.min() >= 0 and full.max() < 3, "C04/ConstraintKMeans/balanced/invalid-label", "invalid label")
    ctx.extra["balanced_rows_batch_dependent"] = dep
    ctx.excluded("documented exception: balanced prediction row differs from single-row prediction", dep)


def run_refusing(case, ctx):
    """Piecewise estimators whose local model refuses some rows at predict time (an isotonic model with
    out_of_bounds='raise', an encoder with handle_unknown='error'): a batch that holds such a row is refused or
    every other row is answered exactly as when it is asked alone - the refusal of one row never changes the answer
    for another."""
    from sklearn.base import BaseEstimator, RegressorMixin, ClassifierMixin
    from sklearn.linear_model import LinearRegression, LogisticRegression
    from sklearn.tree import DecisionTreeRegressor, DecisionTreeClassifier
    from mlinsights.mlmodel import PiecewiseRegressor, PiecewiseClassifier
    rng = numpy.random.RandomState(case["sub"] % (2 ** 31))
    clf = bool(case["sub"] % 2)
    limit = 1.2

    class Refusing(BaseEstimator):
        def fit(self, X, y, sample_weight=None):
            self.inner_ = (LogisticRegression() if clf else LinearRegression()).fit(X, y, sample_weight=sample_weight)
            if clf:
                self.classes_ = self.inner_.classes_
            # like IsotonicRegression(out_of_bounds="raise"): the bounds are those of the rows THIS model was trained on,
            # so a local model refuses rows that the global fallback model accepts
            self.lo_, self.hi_ = float(numpy.min(X[:, -1])), float(numpy.max(X[:, -1]))
            return self

        def _check(self, X):
            v = numpy.asarray(X)[:, -1]
            if ((v < self.lo_) | (v > self.hi_)).any():
                raise ValueError("a value of the last feature is out of the bounds seen by this model")

        def predict(self, X):
            self._check(X)
            return self.inner_.predict(X)

        def predict_proba(self, X):
            self._check(X)
            return self.inner_.predict_proba(X)

    Loc = type("RefusingClassifier" if clf else "RefusingRegressor",
               (ClassifierMixin if clf else RegressorMixin, Refusing), {})
    n = int(rng.randint(80, 200))
    X = rng.randn(n, 2)
    # the last feature is narrow where x0 < 0 and wide elsewhere: buckets (splits on x0) have different bounds
    X[:, -1] = numpy.where(X[:, 0] < 0, rng.uniform(-0.3, 0.3, n), rng.uniform(-2.0, 2.0, n))
    # not linear in x0: a bucket's local model and the global fallback model give different answers
    y = ((X[:, 0] + 0.05 * X[:, 1] > 0.3).astype(int) if clf else X[:, 0] ** 2 + numpy.sin(3 * X[:, 0]) + 0.05 * X[:, 1])
    if clf:
        y[:4] = [0, 1, 0, 1]
    binner = (DecisionTreeClassifier if clf else DecisionTreeRegressor)(max_depth=2, min_samples_leaf=10, random_state=0)
    for n_jobs in (None, 2):
        m = (PiecewiseClassifier(binner, Loc(), n_jobs=n_jobs, random_state=0) if clf
             else PiecewiseRegressor(binner, Loc(), n_jobs=n_jobs))
        cfg = {"kind": "classifier" if clf else "regressor", "n": n, "n_jobs": n_jobs, "sub": case["sub"]}
        K = "C04/%s/" % type(m).__name__
        try:
            m.fit(X, y)
        except Exception as e:
            ctx.excluded("refusing-local: fit raised %s" % type(e).__name__)
            continue
        buckets = numpy.asarray(m.transform_bins(X))
        for meth in (["predict", "predict_proba"] if clf else ["predict"]):
            f = getattr(m, meth)
            for b in numpy.unique(buckets)[:4]:
                rows = X[buckets == b]
                if len(rows) < 2:
                    continue
                a = rows[:1].copy()
                r = rows[1:2].copy()
                hi_b = float(rows[:, -1].max())
                if hi_b > 1.0:
                    continue                    # a wide bucket: nothing between its bounds and the global ones
                r[0, -1] = hi_b + 0.7           # outside the bucket's bounds, inside the global ones
                if int(numpy.asarray(m.transform_bins(r))[0]) != int(b):
                    continue
                alone = numpy.asarray(f(a))
                for order, batch in (("accepted-first", numpy.vstack([a, r])), ("refused-first", numpy.vstack([r, a]))):
                    ctx.hit("refusing_local.batches")
                    try:
                        got = numpy.asarray(f(batch))
                    except Exception:
                        ctx.hit("refusing_local.batch_refused")
                        continue
                    row = got[0] if order == "accepted-first" else got[1]
                    if not row_equal(alone[0], row, False):
                        ctx.violation(K + "%s/batch-dependent/refused-row-in-batch" % meth, "a row answered %r alone is "
                                      "answered %r when a row that its local model refuses is in the same batch (%s)" % (
                                          numpy.asarray(alone[0]).ravel()[:3].tolist(),
                                          numpy.asarray(row).ravel()[:3].tolist(), order), cfg=cfg)
                        break
    ctx.cls("refusing-local-model")


def run_upstream(case, ctx):
    """One upstream test file run in-process; after every successful call of a row-wise method of a registered class
    on a 2-D array, the same call is repeated, made on the first row alone, on a pickled copy and under the poisoned
    allocator.  The tests' own verdicts are ignored."""
    import io
    import os
    import contextlib
    import pytest
    import pandas
    from vrt import kernel, registry, build_ext
    from vrt.poison import Poison
    from vrt.props.c01 import same_out
    rowwise = {}
    classes = []
    for spec in registry.specs():
        cls = type(spec.make(0))
        rowwise[cls.__name__] = set(spec.rowwise)
        for c in cls.__mro__:
            if c.__module__.startswith("mlinsights.") and c not in classes:
                classes.append(c)
    methods = sorted({m for v in rowwise.values() for m in v})
    seen = {"calls": 0, "judged": 0}

    def before(obj, name, args, kwargs):
        return True

    def after(obj, name, args, kwargs, token, res):
        seen["calls"] += 1
        if isinstance(res, BaseException) or name not in rowwise.get(type(obj).__name__, ()):
            return
        X = args[0] if args else kwargs.get("X")
        if isinstance(X, pandas.DataFrame) or not isinstance(X, numpy.ndarray) or X.ndim != 2 or len(X) < 2:
            return
        if getattr(obj, "balanced_predictions", False):
            return          # the documented exception
        if len(args) > 1 or any(k != "X" for k in kwargs):
            return
        K = "C04/%s/" % type(obj).__name__
        cfg = {"class": type(obj).__name__, "method": name, "test_file": case["file"], "rows": int(len(X))}
        try:
            ref = numpy.asarray(res.todense()) if hasattr(res, "todense") else numpy.asarray(res)
            if ref.shape[:1] != (len(X),):
                return
            f = getattr(obj, name)
            seen["judged"] += 1
            ctx.hit("upstream.rowwise_calls_judged")
            again = f(X)
            again = numpy.asarray(again.todense()) if hasattr(again, "todense") else numpy.asarray(again)
            if not same_out(ref, again):
                ctx.violation(K + "%s/repeated-call-differs/upstream" % name, "upstream test workload: the same call "
                              "repeated gives another answer", cfg=cfg)
                return
            one = f(X[:1])
            one = numpy.asarray(one.todense()) if hasattr(one, "todense") else numpy.asarray(one)
            if len(one) != 1 or not same_out(ref[:1], one):
                m_ = margins_simple(ref)
                if m_ is None or m_[0] > 1e-9:
                    ctx.violation(K + "%s/batch-dependent/alone/upstream" % name, "upstream test workload: the first "
                                  "row alone is answered differently than inside its batch of %d rows" % len(X), cfg=cfg)
                    return
            mods = sorted({k.__module__ for k in type(obj).__mro__ if k.__module__.startswith("mlinsights")}
                          | set(EXTRA_MODULES.get(type(obj).__name__, ())))
            with Poison(mods):
                pz = f(X)
            pz = numpy.asarray(pz.todense()) if hasattr(pz, "todense") else numpy.asarray(pz)
            if not same_out(ref, pz):
                ctx.violation(K + "%s/reads-uninitialised-memory/upstream" % name, "upstream test workload: the answer "
                              "changes under the poisoned allocator", cfg=cfg)
                return
            try:
                cp = pickle.loads(pickle.dumps(obj))
            except Exception:
                return
            pc = getattr(cp, name)(X)
            pc = numpy.asarray(pc.todense()) if hasattr(pc, "todense") else numpy.asarray(pc)
            if not same_out(ref, pc):
                ctx.violation(K + "pickle/outputs-differ/upstream", "upstream test workload: %s of a pickled copy "
                              "differs" % name, cfg=cfg)
        except Exception as e:
            ctx.excluded("upstream: follow-up call raised %s" % type(e).__name__)

    n = kernel.install(classes, methods, before, after)
    path = os.path.join(build_ext.repo_root(), "_unittests", case["file"])
    try:
        buf = io.StringIO()
        with contextlib.redirect_stdout(buf), contextlib.redirect_stderr(buf):
            rc = pytest.main(["-q", "-p", "no:cacheprovider", "--no-header", "-W", "ignore", path])
    finally:
        kernel.uninstall()
    ctx.extra["upstream"] = {case["file"]: {"pytest_rc": int(rc), "monitored_calls": seen["calls"],
                                            "judged": seen["judged"], "wrapped_methods": n}}
    if seen["judged"]:
        ctx.nontriv("upstream", case["file"])
    ctx.cls("upstream-test-file")


def margins_simple(ref):
    """distance between the two best scores of each row for probability-like outputs, None otherwise"""
    a = numpy.asarray(ref)
    if a.ndim == 2 and a.shape[1] >= 2 and a.dtype.kind == "f":
        srt = numpy.sort(a, axis=1)
        return srt[:, -1] - srt[:, -2]
    return None


def run_criterion(case, ctx):
    import copy
    from mlinsights.mlmodel import _piecewise_tree_regression_common as cm
    from mlinsights.mlmodel.piecewise_tree_regression_criterion import SimpleRegressorCriterion
    from mlinsights.mlmodel.piecewise_tree_regression_criterion_fast import SimpleRegressorCriterionFast
    from mlinsights.mlmodel.piecewise_tree_regression_criterion_linear import LinearRegressorCriterion
    from mlinsights.mlmodel import PiecewiseTreeRegressor
    rng = numpy.random.RandomState(case["sub"])
    n = int(rng.randint(3, 40))
    X = numpy.ascontiguousarray(rng.randn(n, 2))
    y = numpy.ascontiguousarray(rng.randn(n, 1))
    w = numpy.ones(n)
    o = numpy.arange(n, dtype=numpy.intp)
    for c in (SimpleRegressorCriterion(1, n), SimpleRegressorCriterionFast(1, n), LinearRegressorCriterion(1, X)):
        cm._test_criterion_init(c, y, w, float(n), o, 0, n)
        v = cm._test_criterion_node_value(c)
        c2 = copy.deepcopy(c)
        del c
        cm._test_criterion_init(c2, y, w, float(n), o, 0, n)
        ctx.hit("asan.criterion_copy")
        ctx.check(abs(cm._test_criterion_node_value(c2) - v) < 1e-12, "C04/criterion/deepcopy-differs",
                  "a deep-copied criterion computes another node value")
    for crit in ("mselin", "simple"):
        m = PiecewiseTreeRegressor(criterion=crit, max_depth=3, random_state=0).fit(X, y.ravel())
        m2 = pickle.loads(pickle.dumps(m))
        m3 = copy.deepcopy(m)
        ctx.hit("asan.criterion_copy")
        ctx.check(numpy.array_equal(m.predict(X), m2.predict(X)) and numpy.array_equal(m.predict(X), m3.predict(X)),
                  "C04/PiecewiseTreeRegressor/pickle/outputs-differ", "pickled / deep-copied tree predicts differently")
        m2.fit(X[: n // 2 + 1], y.ravel()[: n // 2 + 1])   # the re-created criterion is usable again


def run_case(case, ctx):
    {"rows": run_rows, "balanced": run_balanced, "criterion": run_criterion, "upstream": run_upstream,
     "refusing": run_refusing}[
        case["gen"]](case, ctx)


def summarize(extras, counters):
    up = {}
    for e in extras:
        up.update(e.get("upstream", {}))
    return {"balanced_prediction_rows_that_depend_on_the_batch": int(sum(e.get("balanced_rows_batch_dependent", 0)
                                                                         for e in extras)),
            "poisoned_buffers_handed_out": int(sum(e.get("poisoned_buffers", 0) for e in extras)),
            "upstream_test_files": up}


def evaluations(counters, ncases):
    return int(sum(counters.get(k, 0) for k in ("rows.single", "rows.subset", "rows.permutation", "rows.repeat",
                                                "pickle", "clone_with_fitted_parameters")))
