"""C20 - time-series framing never looks ahead (index provenance monitor).

Every input cell names the time index it came from (y[t] = t, X[t,c] = 1000*(c+1)+t,
w[t] = 0.5+t), so the monitor decodes, for every output cell of build_ts_X_y, which
time index it was taken from and checks the ordering clauses of the property on the
decoded indices.  The monitor is attached both to direct calls and, through the module
attribute used by the regressors, to the calls DummyTimeSeriesRegressor and
ARTimeSeriesRegressor make themselves.
"""
import itertools

import numpy

PROPERTY = "C20"
LEVEL = "exploration"
NEED_EXT = True  # importing mlinsights.timeseries imports mlmodel, which needs the extensions
REQUIRED = ["build_ts_X_y.table", "build_ts_X_y.same_rows", "ts_mape.naive", "regressor.path",
            "ts_mape.nonneg"]
EXHAUSTIVE = {"quick": True, "thorough": True}
RULE = ("all (n, past, delay2, n_exog, weights, same_rows) in the tier's box with nrow>=1 "
        "(quick: n 3-40, past 1-6, delay2 2-5, exog 0-3; thorough: n 3-120, past 1-10, delay2 2-8, "
        "exog 0-4, float32 too), delay1=1, use_all_past=False; a configuration is non-trivial when "
        "nrow>=2 and (past>=2 or delay2>=3); distinct = distinct configuration tuples")
ASSUMPTIONS = [
    "float series (the functions allocate with y.dtype; NaN padding needs a float dtype)",
    "same_rows=True returns the weights untouched by design; only X and y are compared with the padded table",
    "regressor path: DummyTimeSeriesRegressor with delay2=2 (check_ts_X_y refuses several horizons); "
    "ARTimeSeriesRegressor.fit frames the series twice and is only used as the `model` argument, as upstream's tests do",
]


def box(tier):
    if tier == "quick":
        return dict(n=range(3, 41), past=list(range(1, 7)) + [9, 12], delay2=range(2, 6), ncol=range(0, 4),
                    dtypes=["float64"])
    return dict(n=range(3, 121), past=range(1, 11), delay2=range(2, 9), ncol=range(0, 5),
                dtypes=["float64", "float32"])


def cases(tier, seed):
    b = box(tier)
    out = []
    for n in b["n"]:
        out.append({"gen": "table", "id": "table-n%d" % n, "n": n, "tier": tier})
    nm = 40 if tier == "quick" else 400
    for k in range(nm):
        out.append({"gen": "mape", "id": "mape-%d" % k, "sub": seed * 100003 + k})
    for n in (list(range(4, 30, 3)) if tier == "quick" else list(range(4, 90, 2))):
        out.append({"gen": "regressor", "id": "reg-n%d" % n, "n": n, "tier": tier})
    for k in range(8 if tier == "quick" else 80):
        out.append({"gen": "missing", "id": "missing-%d" % k, "sub": seed * 100003 + k})
    return out


class Model:
    """Minimal stand-in exposing what build_ts_X_y documents it needs."""

    def __init__(self, past, delay2):
        self.past = past
        self.delay1 = 1
        self.delay2 = delay2
        self.use_all_past = False


def make_model(kind, past, delay2):
    """The `model` argument: the plain stand-in and the library's own classes (as upstream does)."""
    if kind == 0:
        return Model(past, delay2)
    from mlinsights.timeseries.base import BaseTimeSeries
    from mlinsights.timeseries.dummies import DummyTimeSeriesRegressor
    from mlinsights.timeseries.ar import ARTimeSeriesRegressor
    if kind == 1:
        return BaseTimeSeries(past=past, delay2=delay2)
    if kind == 2:
        return DummyTimeSeriesRegressor(past=past, delay2=delay2)
    return ARTimeSeriesRegressor(past=past, delay2=delay2)


def coded(n, ncol, with_w, dtype):
    y = numpy.arange(n).astype(dtype)
    X = None
    if ncol:
        X = numpy.empty((n, ncol), dtype=dtype)
        for c in range(ncol):
            X[:, c] = 1000 * (c + 1) + numpy.arange(n)
    w = (0.5 + numpy.arange(n)).astype(dtype) if with_w else None
    return X, y, w


def check_table(ctx, cfg, n, past, delay1, delay2, ncol, out, weights_given, offset=0.0):
    """Provenance check of a (same_rows=False) table produced from coded inputs (series = index + offset)."""
    K = "C20/build_ts_X_y/"
    nx, ny, nw = out
    if offset:
        nx = numpy.array(nx, dtype=float)
        ny = numpy.array(ny, dtype=float) - offset
        nx[:, ncol:] -= offset
    nrow = n - delay2 - past + 2
    ok = True
    if nx.shape[0] != nrow or ny.shape[0] != nrow:
        ctx.violation(K + "row-count", "number of rows %r/%r, expected n-delay2-past+2=%d" % (
            nx.shape, ny.shape, nrow), cfg=cfg)
        return False
    if nx.shape[1] != ncol + past or ny.shape[1] != delay2 - delay1:
        ctx.violation(K + "column-count", "shapes %r %r" % (nx.shape, ny.shape), cfg=cfg)
        return False
    if not (numpy.isfinite(nx).all() and numpy.isfinite(ny).all()):
        ctx.violation(K + "non-finite", "non finite cell in the plain table", cfg=cfg)
        return False
    lags = nx[:, ncol:]           # decoded time indices
    tg = ny
    newest = lags[:, -1]
    if past > 1 and not (numpy.diff(lags, axis=1) == 1).all():
        ctx.violation(K + "lags-not-consecutive", "lag columns are not consecutive indices",
                      cfg=cfg, row0=lags[0])
        ok = False
    if not (lags.max(axis=1) < tg.min(axis=1)).all():
        ctx.violation(K + "lookahead", "a lag feature is not strictly older than every target",
                      cfg=cfg, lags0=lags[0], targets0=tg[0])
        ok = False
    if not (tg[:, 0] == newest + delay1).all():
        ctx.violation(K + "first-target-offset", "first target is not delay1 after the newest lag",
                      cfg=cfg, lags0=lags[0], targets0=tg[0])
        ok = False
    if tg.shape[1] > 1 and not (numpy.diff(tg, axis=1) == 1).all():
        ctx.violation(K + "targets-not-consecutive", "targets are not consecutive", cfg=cfg,
                      targets0=tg[0])
        ok = False
    if nrow > 1 and not (numpy.diff(lags[:, 0]) == 1).all():
        ctx.violation(K + "rows-not-consecutive", "rows do not advance by one step", cfg=cfg)
        ok = False
    if lags[0, 0] != 0:
        ctx.violation(K + "first-row", "oldest lag of the first row is index %r, not 0" % lags[0, 0],
                      cfg=cfg)
        ok = False
    if tg[-1, -1] != n - 1:
        ctx.violation(K + "last-target", "last target is index %r, not n-1=%d" % (tg[-1, -1], n - 1),
                      cfg=cfg)
        ok = False
    for c in range(ncol):
        if not (nx[:, c] - 1000 * (c + 1) == newest).all():
            ctx.violation(K + "exog-misaligned", "exogenous column %d not aligned to the newest lag" % c,
                          cfg=cfg, row0=nx[0])
            ok = False
            break
    if weights_given:
        if nw is None or nw.shape[0] != nrow or not (nw - 0.5 == newest).all():
            ctx.violation(K + "weights-misaligned", "weights not aligned to the newest lag", cfg=cfg,
                          w0=None if nw is None else nw[:3])
            ok = False
    elif nw is not None:
        ctx.violation(K + "weights-invented", "weights returned although none given", cfg=cfg)
        ok = False
    return ok


def check_same_rows(ctx, cfg, n, plain, padded, w_in):
    K = "C20/build_ts_X_y/"
    px, py, _ = plain
    sx, sy, sw = padded
    if sx.shape[0] != n or sy.shape[0] != n:
        ctx.violation(K + "same-rows-length", "same_rows table has %d/%d rows, not %d" % (
            sx.shape[0], sy.shape[0], n), cfg=cfg)
        return False
    first = n - px.shape[0]
    ex = numpy.full((n, px.shape[1]), numpy.nan)
    ex[first:] = px
    ey = numpy.full((n, py.shape[1]), numpy.nan)
    ey[first:] = py
    ok = True
    if sx.shape != ex.shape or not numpy.array_equal(sx, ex, equal_nan=True):
        ctx.violation(K + "same-rows-mismatch", "same_rows X is not the plain table left-padded with NaN",
                      cfg=cfg)
        ok = False
    if sy.shape != ey.shape or not numpy.array_equal(sy, ey, equal_nan=True):
        ctx.violation(K + "same-rows-mismatch", "same_rows y is not the plain table left-padded with NaN",
                      cfg=cfg)
        ok = False
    if w_in is not None and (sw is None or len(sw) != n):
        ctx.violation(K + "same-rows-weights", "same_rows weights do not have n rows", cfg=cfg)
        ok = False
    return ok


def run_table(case, ctx):
    from mlinsights.timeseries.utils import build_ts_X_y
    b = box(case.get("tier", "quick"))
    n = case["n"]
    from vrt.poison import Poison
    reused = {}        # one model object per kind, re-parametrised between calls (same series length n throughout)
    for dtype, past, delay2, ncol, with_w in itertools.product(
            b["dtypes"], b["past"], b["delay2"], b["ncol"], (False, True)):
        nrow = n - delay2 - past + 2
        if nrow == 0 and n >= 1:
            # the exact boundary length: the plain table is the (valid) empty table, the same_rows table is NaN
            # everywhere - judged under the poisoned allocator, stale memory would look like data
            X0, y0, w0 = coded(n, ncol, with_w, dtype)
            try:
                with Poison(["mlinsights.timeseries.utils"]):
                    p0 = build_ts_X_y(make_model(0, past, delay2), X0, y0, w0, same_rows=False)
                    q0 = build_ts_X_y(make_model(0, past, delay2), X0, y0, w0, same_rows=True)
                ctx.hit("build_ts_X_y.empty_table")
                if p0[0].shape[0] != 0 or p0[1].shape[0] != 0:
                    ctx.violation("C20/build_ts_X_y/row-count", "n=%d, past=%d, delay2=%d: %d rows, expected the empty "
                                  "table" % (n, past, delay2, p0[0].shape[0]), n=n, past=past, delay2=delay2)
                if q0[0].shape[0] != n or not (numpy.isnan(numpy.asarray(q0[0], dtype=float)).all()
                                               and numpy.isnan(numpy.asarray(q0[1], dtype=float)).all()):
                    ctx.violation("C20/build_ts_X_y/same-rows-mismatch/empty-table", "n=%d, past=%d, delay2=%d: the "
                                  "same_rows table of the empty table is not %d rows of NaN (uninitialised cells)" % (
                                      n, past, delay2, n), n=n, past=past, delay2=delay2, dtype=dtype)
            except Exception as e:
                if dtype.startswith("float"):
                    ctx.violation("C20/build_ts_X_y/raised", "empty table: %s: %s" % (type(e).__name__, e), n=n,
                                  past=past, delay2=delay2)
            continue
        if nrow < 1:
            ctx.excluded("nrow<1")
            continue
        cfg = {"n": n, "past": past, "delay2": delay2, "ncol": ncol, "weights": with_w, "dtype": dtype}
        X, y, w = coded(n, ncol, with_w, dtype)
        # the exogenous block may come in another dtype than the series (counts, float32 sensors): the lags
        # are values of the series and must not be cast through it
        xkind = ["same", "same", "int64", "float32"][(n + past + ncol) % 4] if ncol and dtype == "float64" else "same"
        if xkind != "same":
            X = X.astype(xkind)
            y = y + 0.25          # non-integer series: a cast through an integer dtype cannot go unnoticed
        cfg["exog_dtype"] = xkind
        # memory layout of the inputs: a column of a C-ordered table, every other element of a record, a
        # reversed view, a Fortran-ordered exogenous block - the values are the same, the strides are not
        layout = ["contiguous", "contiguous", "column-of-table", "strided", "negative-stride", "fortran-exog"][
            (n + 2 * past + 3 * delay2 + ncol + int(with_w)) % 6]
        cfg["layout"] = layout
        ctx.cls("layout=" + layout)

        def relayout(a):
            if a is None or layout == "contiguous":
                return a
            if a.ndim == 1:
                if layout == "column-of-table":
                    t = numpy.empty((len(a), 3), dtype=a.dtype)
                    t[:] = -777
                    t[:, 1] = a
                    return t[:, 1]
                if layout == "strided":
                    t = numpy.full(2 * len(a), -777, dtype=a.dtype)
                    t[::2] = a
                    return t[::2]
                if layout == "negative-stride":
                    return a[::-1].copy()[::-1]
                return a
            if layout == "fortran-exog":
                return numpy.asfortranarray(a)
            if layout == "negative-stride":
                return a[::-1].copy()[::-1]
            t = numpy.full((a.shape[0], 2 * a.shape[1] + 1), -777, dtype=a.dtype)
            t[:, 1::2] = a
            return t[:, 1::2]

        X, y, w = relayout(X), relayout(y), relayout(w)
        keep = [None if a is None else a.copy() for a in (X, y, w)]
        npint = (n + past + delay2) % 3 == 0        # past / delay2 as numpy.int64 (values read from an array)
        cfg["numpy_int_params"] = npint
        mk = (past + delay2 + ncol + n) % 4
        if (n + ncol) % 2 == 0:
            m = make_model(mk, numpy.int64(past) if npint else past, numpy.int64(delay2) if npint else delay2)
        else:
            # the SAME model object as in earlier configurations, re-parametrised (set_params / attributes)
            if mk not in reused:
                reused[mk] = make_model(mk, 1, 2)
            m = reused[mk]
            if hasattr(m, "set_params") and mk != 0:
                m.set_params(past=past, delay2=delay2)
            else:
                m.past, m.delay2 = past, delay2
            cfg["model_object"] = "reused-and-reparametrised"
            ctx.hit("build_ts_X_y.reused_model")
        if mk in (2, 3) and (n + 2 * past + delay2) % 3 == 1 and "model_object" not in cfg:
            # a regressor with an earlier life: fitted with a differencing preprocessing, it carries preprocessing_.
            # build_ts_X_y frames the series it is given; what the model learnt before is not its business
            try:
                from mlinsights.timeseries.preprocessing import TimeSeriesDifference
                m.set_params(preprocessing=TimeSeriesDifference(1 + n % 2))
                m.fit(None, numpy.cumsum(numpy.arange(float(3 * (past + delay2) + 8))) * 0.5)
                if hasattr(m, "preprocessing_"):
                    cfg["model_object"] = "fitted-before-with-a-preprocessing"
                    ctx.hit("build_ts_X_y.model_fitted_before_with_preprocessing")
            except Exception:
                m = make_model(mk, past, delay2)
        try:
            # the flag as a Python bool, as a NumPy bool (the result of a comparison, `.all()`, a cell of a
            # boolean array) or as an integer
            fk = ["bool", "numpy.bool_", "int"][(n + past + delay2 + ncol) % 3]
            cfg["same_rows_given_as"] = fk
            yes, no = {"bool": (True, False), "numpy.bool_": (numpy.True_, numpy.False_), "int": (1, 0)}[fk]
            with Poison(["mlinsights.timeseries.utils"]):
                plain = build_ts_X_y(m, X, y, w, same_rows=no)
                padded = build_ts_X_y(m, X, y, w, same_rows=yes)
        except Exception as e:
            ctx.violation("C20/build_ts_X_y/raised", "%s: %s" % (type(e).__name__, e), cfg=cfg)
            continue
        # the tables of one call are the caller's: framing ANOTHER series of the same layout afterwards leaves them alone
        try:
            held = [None if a is None else numpy.array(a, copy=True) for a in list(plain) + list(padded)]
            y_other = y + 1000.0 if y.dtype.kind == "f" else y + 1000
            build_ts_X_y(m, X, y_other, w, same_rows=no)
            build_ts_X_y(m, X, y_other, w, same_rows=yes)
            ctx.hit("build_ts_X_y.earlier_tables_kept")
            for a_, h_ in zip(list(plain) + list(padded), held):
                if a_ is not None and not numpy.array_equal(numpy.asarray(a_), h_, equal_nan=True):
                    ctx.violation("C20/build_ts_X_y/earlier-table-overwritten", "the table returned for one series changed "
                                  "when another series of the same length was framed", cfg=cfg)
                    break
        except Exception as e:
            ctx.violation("C20/build_ts_X_y/raised", "second series: %s: %s" % (type(e).__name__, e), cfg=cfg)
        ctx.hit("build_ts_X_y.table")
        check_table(ctx, cfg, n, past, 1, delay2, ncol, plain, with_w, offset=0.25 if xkind != "same" else 0.0)
        ctx.hit("build_ts_X_y.same_rows")
        check_same_rows(ctx, cfg, n, plain, padded, w)
        for a, k in zip((X, y, w), keep):
            if a is not None and not numpy.array_equal(a, k):
                ctx.violation("C20/build_ts_X_y/input-modified", "the caller's series was written to",
                              cfg=cfg)
        ctx.cls("dtype=%s" % dtype)
        if xkind != "same":
            ctx.cls("exog-dtype=%s" % xkind)
        ctx.cls("exog" if ncol else "no-exog")
        if nrow >= 2 and (past >= 2 or delay2 >= 3):
            ctx.nontriv(cfg)
        if past == 2 and delay2 == 3 and ncol == 1 and with_w and dtype == "float64":
            ctx.sample({"cfg": cfg, "first_row_X": plain[0][0], "first_row_y": plain[1][0],
                        "w0": plain[2][0]})


def run_missing(case, ctx):
    """Series and exogenous blocks with missing observations (NaN inside the data): the same_rows table is still the
    plain table left-padded with NaN - a NaN that comes from the data is data, not padding."""
    from mlinsights.timeseries.utils import build_ts_X_y
    rng = numpy.random.RandomState(case["sub"] % (2 ** 31))
    for rep in range(12):
        n = int(rng.randint(6, 30))
        past = int(rng.randint(1, 4))
        delay2 = int(rng.randint(2, 5))
        ncol = int(rng.randint(0, 3))
        if n - delay2 - past + 2 < 2:
            continue
        y = rng.randn(n)
        X = rng.randn(n, ncol) if ncol else None
        where = ["series", "exog", "both"][rep % 3] if ncol else "series"
        if where in ("series", "both"):
            y[rng.randint(0, n, size=2)] = numpy.nan
        if where in ("exog", "both") and ncol:
            X[rng.randint(0, n), rng.randint(ncol)] = numpy.nan
        w = rng.rand(n) if rep % 2 else None
        cfg = {"n": n, "past": past, "delay2": delay2, "ncol": ncol, "missing_in": where, "sub": case["sub"]}
        m = Model(past, delay2)
        try:
            plain = build_ts_X_y(m, X, y, w, same_rows=False)
            padded = build_ts_X_y(m, X, y, w, same_rows=True)
        except Exception as e:
            ctx.violation("C20/build_ts_X_y/raised", "missing observations: %s: %s" % (type(e).__name__, e), cfg=cfg)
            continue
        ctx.hit("build_ts_X_y.missing_observations")
        nrow = plain[0].shape[0]
        px, py = numpy.asarray(padded[0], dtype=float), numpy.asarray(padded[1], dtype=float)
        ok = (px.shape[0] == n and numpy.isnan(px[: n - nrow]).all() and numpy.isnan(py[: n - nrow]).all()
              and numpy.array_equal(px[n - nrow:], numpy.asarray(plain[0], dtype=float), equal_nan=True)
              and numpy.array_equal(py[n - nrow:], numpy.asarray(plain[1], dtype=float), equal_nan=True))
        if not ok:
            ctx.violation("C20/build_ts_X_y/same-rows-mismatch/missing-observations", "with NaN inside the %s the "
                          "same_rows table is not the plain table left-padded with NaN" % where, cfg=cfg)
        ctx.nontriv("missing", cfg)
    ctx.cls("missing-observations")


def run_mape(case, ctx):
    # one case in four runs under scikit-learn's process-wide assume_finite=True (set by users who validated their data
    # once): the NaN rows of a forecast still mean "no forecast"
    import contextlib
    import sklearn
    if case["sub"] % 4 == 0:
        ctx.cls("sklearn.assume_finite=True")
        with sklearn.config_context(assume_finite=True):
            ctx.hit("ts_mape.under_assume_finite")
            return _run_mape(case, ctx)
    with contextlib.nullcontext():
        return _run_mape(case, ctx)


def _run_mape(case, ctx):
    from mlinsights.timeseries.metrics import ts_mape
    rng = numpy.random.RandomState(case["sub"] % (2 ** 31))
    n = int(rng.randint(3, 60))
    kind = ["gauss", "walk", "ints", "constant", "const-tail"][case["sub"] % 5]
    if kind == "gauss":
        y = rng.randn(n)
    elif kind == "walk":
        y = numpy.cumsum(rng.randn(n))
    elif kind == "ints":
        y = rng.randint(-3, 4, n).astype(float)
    elif kind == "constant":
        y = numpy.full(n, float(rng.randint(-2, 3)))
    else:
        y = numpy.concatenate([rng.randn(n - n // 2), numpy.zeros(n // 2)])
    ctx.cls("series=" + kind)
    scale = [1.0, 1.0, 1e-10, 1e10, 1e-4][(case["sub"] // 5) % 5]
    y = y * scale + (0.0 if (case["sub"] // 25) % 2 else 3.0 * scale)
    ctx.cls("scale=%g" % scale)
    for with_w in (False, True):
        w = rng.rand(n) + 0.1 if with_w else None
        for prefix in sorted({1, int(rng.randint(1, max(2, n - 1)))}):
            for first_arbitrary in (False, True):
                pred = numpy.empty(n)
                pred[1:] = y[:-1]
                pred[:prefix] = numpy.nan
                if first_arbitrary and prefix == 1:
                    pred[0] = rng.randn() * 100 * scale
                cfg = {"n": n, "kind": kind, "weights": with_w, "nan_prefix": prefix,
                       "first_arbitrary": first_arbitrary, "sub": case["sub"]}
                # denominator of the naive forecast on the scored part
                lo = prefix + 1 if not (first_arbitrary and prefix == 1) else 1
                ww = numpy.ones(n) if w is None else w
                den = float(numpy.sum(numpy.abs(y[lo:] - y[lo - 1:-1]) * ww[lo:])) if lo < n else 0.0
                yk_, pk_ = y.copy(), pred.copy()
                wk_ = None if w is None else w.copy()
                try:
                    v = ts_mape(y, pred, sample_weight=w)
                    v_again = ts_mape(y, pred, sample_weight=w)
                    ctx.hit("ts_mape.arguments_untouched")
                    same_args = (numpy.array_equal(y, yk_) and numpy.array_equal(pred, pk_, equal_nan=True)
                                 and (w is None or numpy.array_equal(w, wk_)))
                    if not same_args:
                        ctx.violation("C20/ts_mape/input-modified", "ts_mape wrote into its arguments (the NaN rows of "
                                      "the forecast mean 'no forecast')", cfg=cfg)
                        pred[:] = pk_
                    elif not (float(v) == float(v_again) or (v != v and v_again != v_again)):
                        ctx.violation("C20/ts_mape/second-call-differs", "two calls on the same arrays: %r then %r" % (
                            float(v), float(v_again)), cfg=cfg)
                    # the forecast as a column (n, 1), as the regressors produce it
                    v_col = ts_mape(y, pred.reshape(-1, 1).copy(), sample_weight=w)
                    if not (abs(float(v_col) - float(v)) <= 1e-12 * max(1.0, abs(float(v))) or (v != v and v_col != v_col)):
                        ctx.violation("C20/ts_mape/column-forecast-differs", "forecast given as a column: %r, as a "
                                      "vector: %r" % (float(v_col), float(v)), cfg=cfg)
                except Exception as e:
                    ctx.hit("ts_mape.naive")
                    ctx.violation("C20/ts_mape/raised/%s" % type(e).__name__,
                                  "ts_mape raised %s: %s" % (type(e).__name__, e), cfg=cfg)
                    continue
                ctx.hit("ts_mape.naive")
                v = float(v)
                if den > 0:
                    ctx.check(abs(v - 1.0) <= 1e-12, "C20/ts_mape/naive-not-1",
                              "ts_mape of the previous-value forecast is %r, not 1" % v, cfg=cfg)
                    ctx.nontriv("naive", cfg)
                else:
                    ctx.check(v >= 0, "C20/ts_mape/negative", "ts_mape=%r" % v, cfg=cfg)
        # the naive forecast with HOLES (no forecast for some rows in the middle and at the end): the rows without
        # forecast, and the rows right after them, drop out of both sums - still 1
        if n >= 8:
            predh = numpy.empty(n)
            predh[1:] = y[:-1]
            predh[0] = numpy.nan
            holes = numpy.unique(numpy.concatenate([rng.randint(2, n - 1, size=max(1, n // 6)), [n - 1] if case["sub"] % 2 else []])).astype(int)
            predh[holes] = numpy.nan
            ww_ = numpy.ones(n) if w is None else w
            ok_rows = ~numpy.isnan(predh)
            ok_rows[1:] &= ~numpy.isnan(predh[:-1])
            ok_rows[0] = False
            denh = float(numpy.sum((numpy.abs(y[1:] - y[:-1]) * ww_[1:])[ok_rows[1:]]))
            cfgh = {"n": n, "kind": kind, "weights": with_w, "holes": holes.tolist()[:6], "sub": case["sub"]}
            try:
                vh = float(ts_mape(y, predh, sample_weight=w))
                ctx.hit("ts_mape.naive_with_holes")
                if denh > 0 and not abs(vh - 1.0) <= 1e-9:
                    ctx.violation("C20/ts_mape/naive-not-1/holes", "naive forecast with missing forecasts at %r: ts_mape=%r, "
                                  "not 1" % (holes.tolist()[:6], vh), cfg=cfgh)
            except Exception as e:
                ctx.violation("C20/ts_mape/raised/%s/holes" % type(e).__name__, str(e)[:120], cfg=cfgh)
        # the observed series held in a pandas container (a column of the user's table, with its own index), the naive
        # forecast complete (first value filled in, no NaN anywhere): still 1
        import pandas
        predc = numpy.empty(n)
        predc[1:] = y[:-1]
        predc[0] = y[0]
        ixp = numpy.random.RandomState(case["sub"] % 977).permutation(n) + 3
        for cname, yc in (("Series", pandas.Series(y, index=ixp)), ("one-column-frame", pandas.DataFrame({"y": y}, index=ixp)),
                          ("Series-default-index", pandas.Series(y))):
            cfgc = {"n": n, "kind": kind, "weights": with_w, "target_container": cname, "sub": case["sub"]}
            denc = float(numpy.sum(numpy.abs(numpy.diff(y)) * (numpy.ones(n) if w is None else w)[1:]))
            try:
                vc = float(ts_mape(yc, predc, sample_weight=w))
            except Exception as e:
                ctx.hit("ts_mape.pandas_target")
                ctx.violation("C20/ts_mape/raised/%s/pandas-target" % type(e).__name__, "observed series given as a %s: %s" % (
                    cname, str(e)[:120]), cfg=cfgc)
                continue
            ctx.hit("ts_mape.pandas_target")
            if denc > 0 and not abs(vc - 1.0) <= 1e-12:
                ctx.violation("C20/ts_mape/naive-not-1/pandas-target", "observed series given as a %s, complete naive "
                              "forecast: ts_mape=%r, not 1" % (cname, vc), cfg=cfgc)
            elif not vc >= 0:
                ctx.violation("C20/ts_mape/negative", "ts_mape=%r" % vc, cfg=cfgc)
        # arbitrary forecasts: non-negativity, and the documented ratio when no NaN
        pred = y + rng.randn(n) * rng.choice([0.0, 0.1, 3.0]) * scale
        cfg = {"n": n, "kind": kind, "weights": with_w, "arbitrary": True, "sub": case["sub"]}
        try:
            v = float(ts_mape(y, pred, sample_weight=w))
        except Exception as e:
            ctx.hit("ts_mape.nonneg")
            ctx.violation("C20/ts_mape/raised/%s" % type(e).__name__,
                          "ts_mape raised %s: %s" % (type(e).__name__, e), cfg=cfg)
            continue
        ctx.hit("ts_mape.nonneg")
        ctx.check(v >= 0, "C20/ts_mape/negative", "ts_mape=%r" % v, cfg=cfg)
        ww = numpy.ones(n) if w is None else w
        den = float(numpy.sum(numpy.abs(numpy.diff(y)) * ww[1:]))
        num = float(numpy.sum(numpy.abs(pred[1:] - y[1:]) * ww[1:]))
        if den > 0:
            ctx.check(abs(v - num / den) <= 1e-9 * max(1.0, num / den), "C20/ts_mape/ratio",
                      "ts_mape=%r, documented ratio=%r" % (v, num / den), cfg=cfg)
            ctx.nontriv("ratio", cfg)
        # NaN in the middle: only non-negativity is claimed
        if n > 5:
            p2 = pred.copy()
            p2[rng.randint(1, n - 1)] = numpy.nan
            try:
                v2 = float(ts_mape(y, p2, sample_weight=w))
                ctx.hit("ts_mape.nonneg")
                ctx.check(v2 >= 0, "C20/ts_mape/negative", "ts_mape=%r with NaN inside" % v2, cfg=cfg)
            except Exception as e:
                ctx.violation("C20/ts_mape/raised/%s" % type(e).__name__,
                              "ts_mape raised %s: %s" % (type(e).__name__, e), cfg=cfg)


def run_regressor(case, ctx):
    """The regressors' own call path with the provenance monitor on build_ts_X_y."""
    import mlinsights.timeseries.base as base
    from mlinsights.timeseries.dummies import DummyTimeSeriesRegressor
    n = case["n"]
    real = base.build_ts_X_y
    seen = []

    def wrapped(model, X, y, weights=None, same_rows=False):
        out = real(model, X, y, weights, same_rows=same_rows)
        seen.append((model.past, model.delay1, model.delay2, X, y, weights, same_rows, out))
        return out

    base.build_ts_X_y = wrapped
    try:
        # the regressors validate y as one-dimensional: they support a single horizon (delay2 = 2)
        for past, delay2, ncol, with_w in itertools.product((1, 2, 3, 5, 8), (2,), (0, 1, 3), (False, True)):
            if n - delay2 - past + 2 < 1:
                continue
            X, y, w = coded(n, ncol, with_w, "float64")
            cfg = {"n": n, "past": past, "delay2": delay2, "ncol": ncol, "weights": with_w}
            for name, mk in (("Dummy", lambda: DummyTimeSeriesRegressor(past=past, delay2=delay2)),):
                del seen[:]
                try:
                    reg = mk()
                    reg.fit(X, y, w)
                    pred = reg.predict(X, y)
                except Exception as e:
                    ctx.violation("C20/regressor/raised/%s/%s" % (name, type(e).__name__),
                                  "%s: %s" % (type(e).__name__, e), cfg=cfg)
                    continue
                ctx.hit("regressor.path")
                # the monitor saw the calls the regressor made itself
                if not seen:
                    ctx.violation("C20/regressor/no-framing-call", "regressor never called build_ts_X_y",
                                  cfg=cfg, reg=name)
                for (p_, d1, d2, X_, y_, w_, same, out) in seen:
                    if same and y_ is y or numpy.array_equal(y_, y):
                        # decode through the padded table: strip the NaN rows, then provenance-check
                        sx, sy, sw = out
                        first = n - (n - d2 - p_ + 2)
                        plain = (sx[first:], sy[first:], None)
                        nc = 0 if X_ is None else X_.shape[1]
                        ctx.hit("build_ts_X_y.regressor_calls")
                        if not numpy.isnan(sx[:first]).all() and first > 0:
                            ctx.violation("C20/build_ts_X_y/same-rows-mismatch",
                                          "padding rows are not NaN", cfg=cfg)
                        check_table(ctx, dict(cfg, via=name), n, p_, d1, d2, nc, plain, False)
                # the forecast never uses the present or the future: pred[t] == y[t-1] (= t-1)
                pred = numpy.asarray(pred, dtype=float)
                if pred.shape[0] != n:
                    ctx.violation("C20/regressor/pred-length", "prediction has %d rows, series %d" % (
                        pred.shape[0], n), cfg=cfg, reg=name)
                    continue
                t = numpy.arange(n)
                valid = ~numpy.isnan(pred[:, 0])
                ctx.check(bool(valid[past:].all()) and not valid[:past].any(),
                          "C20/regressor/nan-pattern",
                          "forecast NaN pattern is not 'first past rows only'", cfg=cfg, reg=name)
                bad = valid & (pred[:, 0] >= t)
                ctx.check(not bad.any(), "C20/regressor/lookahead",
                          "the previous-value forecast at time t uses an index >= t", cfg=cfg, reg=name,
                          pred=pred[:6, 0])
                ctx.check(bool((pred[valid, 0] == t[valid] - 1).all()), "C20/regressor/not-previous-value",
                          "forecast is not y[t-1]", cfg=cfg, reg=name, pred=pred[:6, 0])
                if n - past - 1 < 1:
                    ctx.excluded("score: no scorable pair (n < past+2)")
                elif delay2 == 2:
                    try:
                        s = float(reg.score(X, y, w))
                        ctx.hit("regressor.score")
                        ctx.check(abs(s - 1) <= 1e-12, "C20/regressor/score-not-1",
                                  "score of the naive forecast is %r" % s, cfg=cfg, reg=name)
                    except Exception as e:
                        ctx.violation("C20/regressor/raised/%s/%s" % (name, type(e).__name__),
                                      "score: %s: %s" % (type(e).__name__, e), cfg=cfg)
                ctx.nontriv("reg", name, cfg)
    finally:
        base.build_ts_X_y = real


def run_case(case, ctx):
    {"table": run_table, "mape": run_mape, "regressor": run_regressor, "missing": run_missing}[case["gen"]](case, ctx)


def evaluations(counters, ncases):
    return int(counters.get("build_ts_X_y.table", 0) + counters.get("build_ts_X_y.same_rows", 0)
               + counters.get("ts_mape.naive", 0) + counters.get("ts_mape.nonneg", 0)
               + counters.get("regressor.path", 0))
