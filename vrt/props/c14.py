"""C14 - traceable vectorizers equal scikit-learn's, with n-grams kept as token tuples.

Differential monitor: the scikit-learn parent with the same options is the oracle for the
document-term matrices (fit_transform and transform on another corpus) and, through
' '.join(tuple), for vocabulary_.
"""
import numpy

PROPERTY = "C14"
LEVEL = "exploration"
NEED_EXT = True
REQUIRED = ["count.fit_transform", "tfidf.fit_transform", "count.transform", "tfidf.transform",
            "vocabulary", "feature_names"]
RULE = ("corpora over a 14-word alphabet incl. stop words, mixed case and punctuation; empty, one-token, "
        "shorter-than-n and repeated-token documents, a quarter of the corpora from a vocabulary whose lower case and case folding differ (sharp s, final sigma, long s, dotted I) and non-Latin tokens; options drawn from ngram_range 1<=a<=b<=4 (a=0 in 6%: accepted by scikit-learn), stop_words, "
        "lowercase, binary, min_df, max_df, max_features, tf-idf switches; non-trivial = vocabulary of >= 3 "
        "terms with at least one n-gram of length >= 2; distinct = distinct (options, corpus)")
ASSUMPTIONS = ["default tokenizer / analyzer='word' (the property's domain)",
               "when scikit-learn's vectorizer refuses the corpus (empty vocabulary, min_df/max_df "
               "inconsistent) the traceable one must refuse it too; such cases are counted, not compared"]

WORDS = ["aa", "bb", "cc", "dd", "the", "is", "and", "of", "cat", "The", "IS", "Cat", "dog", "x1"]
# tokens that continue another token with a digit, an underscore or a capital letter: scikit-learn orders n-grams like
# their space-joined form, and a space sorts before all of these
CONT = ["mp", "mp3", "mp_3", "python", "python3", "user", "user_id", "Git", "GitHub", "git", "x1", "x", "x_", "x_1"]
# tokens whose lower case and case folding differ (sharp s, final sigma, long s, dotted capital I), accented and
# non-Latin tokens, upper / lower pairs of them
INTL = ["straße", "strasse", "Straße", "STRASSE", "ΟΔΟΣ", "οδος", "οδοσ", "fluſs", "fluss", "İstanbul", "istanbul",
        "naïve", "NAÏVE", "été", "Été", "日本", "ÅNGSTRÖM", "ångström", "ǅungla", "ǆungla"]
PUNCT = [" ", " ", " ", ", ", ". ", "  ", "! ", " - "]


def cases(tier, seed):
    n = 640 if tier == "quick" else 8000
    return [{"gen": "vec", "id": "vec-%d" % k, "sub": seed * 1000003 + k} for k in range(n)]


def make_corpus(rng, ndocs):
    docs = []
    intl = rng.rand() < 0.25
    cont = (not intl) and rng.rand() < 0.2
    for _ in range(ndocs):
        r = rng.rand()
        if r < 0.12:
            ln = 0
        elif r < 0.3:
            ln = 1
        elif r < 0.55:
            ln = int(rng.randint(2, 4))
        else:
            ln = int(rng.randint(4, 12))
        vocab = WORDS if rng.rand() < 0.7 else WORDS[:5]
        if intl:
            vocab = INTL + WORDS[:4]
        elif cont:
            vocab = CONT + WORDS[:2]
        toks = [vocab[rng.randint(len(vocab))] for _ in range(ln)]
        if ln >= 2 and rng.rand() < 0.3:
            toks[1] = toks[0]
        s = ""
        for t in toks:
            s += t + PUNCT[rng.randint(len(PUNCT))]
        docs.append(s.strip() if rng.rand() < 0.5 else s)
    return docs


def make_options(rng):
    a = [1, 1, 1, 2, 2, 3, 4][rng.randint(7)]
    b = int(rng.randint(a, 5))
    if rng.rand() < 0.06:
        a = 0      # accepted by scikit-learn: a document without any token then yields the empty n-gram once
    o = {"ngram_range": (a, b)}
    r = rng.rand()
    if r < 0.3:
        o["stop_words"] = "english"
    elif r < 0.5:
        o["stop_words"] = ["aa", "the", "Cat"]
    elif r < 0.62:
        # entries that contain a space: scikit-learn compares the stop list with single tokens only, so they are inert
        w = [WORDS[i] for i in rng.randint(len(WORDS), size=4)]
        o["stop_words"] = [w[0], "%s %s" % (w[1], w[2]), "%s %s" % (w[2], w[1]), "%s %s %s" % (w[0], w[3], w[1])]
    if rng.rand() < 0.35:
        o["lowercase"] = False
    if rng.rand() < 0.25:
        o["binary"] = True
    r = rng.rand()
    if r < 0.2:
        o["min_df"] = 2
    elif r < 0.3:
        o["min_df"] = 0.5
    r = rng.rand()
    if r < 0.15:
        o["max_df"] = 0.8
    elif r < 0.25:
        o["max_df"] = 3
    if rng.rand() < 0.2:
        o["max_features"] = 5
    return o


def tfidf_options(rng):
    o = {}
    if rng.rand() < 0.3:
        o["sublinear_tf"] = True
    if rng.rand() < 0.3:
        o["use_idf"] = False
    if rng.rand() < 0.3:
        o["smooth_idf"] = False
    r = rng.rand()
    if r < 0.2:
        o["norm"] = "l1"
    elif r < 0.3:
        o["norm"] = None
    return o


def attempt(f):
    try:
        return f(), None
    except Exception as e:  # both sides are compared on what they raise
        return None, e


def run_case(case, ctx):
    from sklearn.feature_extraction.text import CountVectorizer, TfidfVectorizer
    from mlinsights.mlmodel.sklearn_text import TraceableCountVectorizer, TraceableTfidfVectorizer
    rng = numpy.random.RandomState(case["sub"] % (2 ** 31))
    corpus = make_corpus(rng, int(rng.randint(2, 9)))
    other = make_corpus(rng, int(rng.randint(1, 6)))
    opts = make_options(rng)
    topts = tfidf_options(rng)
    for name, Parent, Child, o in (("count", CountVectorizer, TraceableCountVectorizer, opts),
                                   ("tfidf", TfidfVectorizer, TraceableTfidfVectorizer, dict(opts, **topts))):
        cfg = {"vectorizer": name, "options": {k: (list(v) if isinstance(v, tuple) else v) for k, v in o.items()},
               "corpus": corpus, "sub": case["sub"]}
        K = "C14/%s/" % name
        # ---- documents that need decoding: the same corpus as bytes, and as files read by the vectorizer itself
        if case["sub"] % 4 == 0 and o["ngram_range"][0] >= 1:
            import os
            import shutil
            import tempfile
            tmpd = tempfile.mkdtemp(prefix="c14-")
            try:
                paths = []
                for j_, doc in enumerate(corpus):
                    paths.append(os.path.join(tmpd, "doc%d.txt" % j_))
                    with open(paths[-1], "w", encoding="utf-8") as f_:
                        f_.write(doc)
                for dname, docs_, extra_ in (("bytes", [d_.encode("utf-8") for d_ in corpus], {}),
                                             ("filename", paths, {"input": "filename"})):
                    p2, c2 = Parent(**dict(o, **extra_)), Child(**dict(o, **extra_))
                    m2p, e2p = attempt(lambda: p2.fit_transform(docs_))
                    m2c, e2c = attempt(lambda: c2.fit_transform(docs_))
                    ctx.hit("documents." + dname)
                    if (e2p is None) != (e2c is None) or (e2p is not None and type(e2p) is not type(e2c)):
                        ctx.violation(K + "refusal-differs/%s-documents" % dname, "scikit-learn: %r, traceable: %r" % (
                            e2p, e2c), cfg=cfg)
                    elif e2p is None:
                        same_v = {" ".join(k_) if isinstance(k_, tuple) else k_: v_ for k_, v_ in c2.vocabulary_.items()} \
                            == dict(p2.vocabulary_)
                        if m2p.shape != m2c.shape or not numpy.allclose(m2p.toarray(), m2c.toarray(), rtol=1e-12,
                                                                         atol=1e-14) or not same_v:
                            ctx.violation(K + "matrix-differs/%s-documents" % dname, "documents given as %s: the matrix or "
                                          "the vocabulary differs from scikit-learn's" % dname, cfg=cfg)
            finally:
                shutil.rmtree(tmpd, ignore_errors=True)
        p, c = Parent(**o), Child(**o)
        container = ["list", "list", "ndarray", "series", "tuple"][case["sub"] % 5]
        if container == "ndarray":
            cin = numpy.array(corpus, dtype=object)
        elif container == "series":
            import pandas
            cin = pandas.Series(corpus, dtype=object)
        elif container == "tuple":
            cin = tuple(corpus)
        else:
            cin = corpus
        ctx.cls("container=" + container)
        mp, ep = attempt(lambda: p.fit_transform(corpus))
        mc, ec = attempt(lambda: c.fit_transform(cin))
        ctx.cls("ngram=%d-%d" % o["ngram_range"])
        ctx.cls("stop_words=%s" % ("none" if "stop_words" not in o else
                                   ("english" if o["stop_words"] == "english" else "custom")))
        if ep is not None or ec is not None:
            if (ep is None) != (ec is None) or type(ep) is not type(ec):
                ctx.hit(name + ".fit_transform")
                ctx.violation(K + "refusal-differs", "scikit-learn: %r, traceable: %r" % (ep, ec), cfg=cfg)
            else:
                ctx.excluded("both-refuse-corpus")
            continue
        ctx.hit(name + ".fit_transform")
        dp, dc = mp.toarray(), mc.toarray()
        tol = dict(rtol=1e-12, atol=1e-14) if name == "tfidf" else dict(rtol=0, atol=0)
        if dp.shape != dc.shape:
            ctx.violation(K + "matrix-shape", "fit_transform shape %r vs scikit-learn %r" % (dc.shape, dp.shape),
                          cfg=cfg)
            continue
        if not numpy.allclose(dc, dp, **tol):
            i, j = numpy.argwhere(~numpy.isclose(dc, dp, **tol))[0]
            ctx.violation(K + "matrix-differs", "fit_transform differs at doc %d column %d: %r vs %r" % (
                i, j, dc[i, j], dp[i, j]), cfg=cfg)
        # vocabulary: tuple of tokens -> column of the space-joined n-gram
        ctx.hit("vocabulary")
        vp, vc = p.vocabulary_, c.vocabulary_
        if len(vp) != len(vc):
            ctx.violation(K + "vocabulary-size", "%d terms vs scikit-learn %d" % (len(vc), len(vp)), cfg=cfg)
        bad = None
        for key, col in vc.items():
            if not isinstance(key, tuple) or not all(isinstance(t, str) for t in key):
                bad = ("key %r is not a tuple of tokens" % (key,), "vocabulary-key-type")
                break
            joined = " ".join(key)
            if joined not in vp:
                bad = ("n-gram %r unknown to scikit-learn" % (key,), "vocabulary-extra-term")
                break
            if vp[joined] != col:
                bad = ("n-gram %r has column %d, scikit-learn %d" % (key, col, vp[joined]), "vocabulary-column")
                break
        if bad:
            ctx.violation(K + bad[1], bad[0], cfg=cfg)
        ctx.hit("feature_names")
        np_, nc_ = attempt(lambda: p.get_feature_names_out())[0], attempt(lambda: c.get_feature_names_out())
        if nc_[1] is not None:
            ctx.excluded("get_feature_names_out-raises-on-tuples")  # numpy cannot build the object array
        elif len(nc_[0]) != len(np_):
            ctx.violation(K + "feature-names-length", "%d names vs %d" % (len(nc_[0]), len(np_)), cfg=cfg)
        # transform on another corpus
        tp, te = attempt(lambda: p.transform(other))
        tc, tce = attempt(lambda: c.transform(other))
        ctx.hit(name + ".transform")
        if te is not None or tce is not None:
            if (te is None) != (tce is None):
                ctx.violation(K + "transform-raises", "scikit-learn: %r, traceable: %r" % (te, tce), cfg=cfg)
        else:
            tp, tc = tp.toarray(), tc.toarray()
            if tp.shape != tc.shape or not numpy.allclose(tc, tp, **tol):
                ctx.violation(K + "transform-differs", "transform on another corpus differs", cfg=cfg,
                              other=other)
        # history: the SAME two vectorizer objects reconfigured with set_params and fitted again, three times
        # (an instance-level memo keyed on the tokens alone would survive the change of n-gram range / stop words)
        hrng = numpy.random.RandomState(case["sub"] % 1000 + 3)
        for step in range(3):
            o2 = make_options(hrng)
            upd = {"ngram_range": o2["ngram_range"], "stop_words": o2.get("stop_words"),
                   "lowercase": o2.get("lowercase", True), "binary": o2.get("binary", False)}
            cfg2 = dict(cfg, history_step=step, set_params={k: (list(v) if isinstance(v, tuple) else v)
                                                            for k, v in upd.items()})
            docs = corpus if step != 1 else corpus + other
            p.set_params(**upd)
            c.set_params(**upd)
            hp, hep = attempt(lambda: p.fit_transform(docs))
            hc, hec = attempt(lambda: c.fit_transform(docs))
            ctx.hit("history.set_params_refit")
            if hep is not None or hec is not None:
                if (hep is None) != (hec is None):
                    ctx.violation(K + "refusal-differs/after-set_params", "scikit-learn: %r, traceable: %r" % (hep, hec),
                                  cfg=cfg2)
                    break
                continue
            if hp.shape != hc.shape or not numpy.allclose(hc.toarray(), hp.toarray(), **tol):
                ctx.violation(K + "matrix-differs/after-set_params", "after set_params and a refit of the same "
                              "instances the document-term matrix differs from scikit-learn's (%r vs %r)" % (
                                  hc.shape, hp.shape), cfg=cfg2)
                break
            if {" ".join(k): v for k, v in c.vocabulary_.items()} != dict(p.vocabulary_):
                ctx.violation(K + "vocabulary-column/after-set_params", "after set_params and a refit vocabulary_ no "
                              "longer maps token tuples to scikit-learn's columns", cfg=cfg2)
                break
        # history: a transform that is REFUSED (a batch holding None), then the same objects fitted on another corpus:
        # matrix and vocabulary are again scikit-learn's
        try:
            p3, c3 = Parent(**o), Child(**o)
            r1p, e1p = attempt(lambda: p3.fit_transform(corpus))
            r1c, e1c = attempt(lambda: c3.fit_transform(corpus))
            if e1p is None and e1c is None:
                for bad_batch in ([None, "aa bb"], [float("nan")]):
                    _, ebp = attempt(lambda: p3.transform(bad_batch))
                    _, ebc = attempt(lambda: c3.transform(bad_batch))
                corpus3 = other + ["zz yy xx", "yy xx ww vv", "zz yy"]
                hp, hep = attempt(lambda: p3.fit_transform(corpus3))
                hc, hec = attempt(lambda: c3.fit_transform(corpus3))
                ctx.hit("history.refit_after_refused_transform")
                if (hep is None) != (hec is None):
                    ctx.violation(K + "refusal-differs/after-refused-transform", "a refused transform, then a fit on another "
                                  "corpus: scikit-learn %r, traceable %r" % (hep, hec), cfg=cfg)
                elif hep is None and (hp.shape != hc.shape or not numpy.allclose(hc.toarray(), hp.toarray(), **tol) or
                                      {" ".join(k): v for k, v in c3.vocabulary_.items()} != dict(p3.vocabulary_)):
                    ctx.violation(K + "matrix-differs/after-refused-transform", "a refused transform, then a fit on another "
                                  "corpus: matrix or vocabulary differ from scikit-learn's (%r vs %r)" % (hc.shape, hp.shape),
                                  cfg=cfg)
        except Exception as e:
            ctx.violation(K + "history-raised/%s/after-refused-transform" % type(e).__name__, str(e)[:150], cfg=cfg)
        # history: the stop list OBJECT each vectorizer holds is extended in place between two fits ("append the top
        # terms and fit again"): the effective stop list is rebuilt from the parameter at every fit and transform
        sl_p, sl_c = ["the"], ["the"]
        try:
            p2 = Parent(**dict(o, stop_words=sl_p))
            c2 = Child(**dict(o, stop_words=sl_c))
            for step in range(3):
                hp, hep = attempt(lambda: p2.fit_transform(corpus))
                hc, hec = attempt(lambda: c2.fit_transform(corpus))
                ctx.hit("history.stop_list_mutated")
                if hep is not None or hec is not None:
                    if (hep is None) != (hec is None):
                        ctx.violation(K + "refusal-differs/stop-list-mutated", "scikit-learn: %r, traceable: %r" % (
                            hep, hec), cfg=cfg)
                        break
                elif hp.shape != hc.shape or not numpy.allclose(hc.toarray(), hp.toarray(), **tol) or \
                        {" ".join(k): v for k, v in c2.vocabulary_.items()} != dict(p2.vocabulary_):
                    ctx.violation(K + "matrix-differs/stop-list-mutated-in-place", "after the stop list object was "
                                  "extended in place (step %d: %r) and the vectorizer fitted again, matrix or "
                                  "vocabulary differ from scikit-learn's" % (step, sl_c), cfg=cfg)
                    break
                add = [WORDS[(case["sub"] + step) % len(WORDS)], WORDS[(case["sub"] + 2 * step + 1) % len(WORDS)].lower()]
                sl_p.extend(add)
                sl_c.extend(add)
                tq, tqe = attempt(lambda: p2.transform(other))
                tcq, tcqe = attempt(lambda: c2.transform(other))
                if tqe is None and tcqe is None and (tq.shape != tcq.shape or not numpy.allclose(
                        tcq.toarray(), tq.toarray(), **tol)):
                    ctx.violation(K + "transform-differs/stop-list-mutated-in-place", "transform after the stop list "
                                  "object was extended in place differs from scikit-learn's", cfg=cfg)
                    break
        except Exception as e:
            ctx.violation(K + "raised/%s/stop-list-history" % type(e).__name__, str(e)[:150], cfg=cfg)
        if len(vp) >= 3 and any(len(k) >= 2 for k in vc if isinstance(k, tuple)):
            ctx.nontriv(cfg)
        ctx.sample({"cfg": cfg, "n_terms": len(vc), "first_terms": sorted(vc, key=vc.get)[:4]})


def evaluations(counters, ncases):
    return int(counters.get("count.fit_transform", 0) + counters.get("tfidf.fit_transform", 0))
