"""C02 - fit / predict never alter hyper-parameters or caller data, also when fit fails (fault enumeration).

Frame monitor: around every call (fit, every output method) the deep parameter fingerprint and the bytes of
the caller's X / y / sample_weight are snapshotted and compared afterwards - also when the call raises.
Fault sequences, each followed by the atomicity checks (parameters as before; a later successful fit on the
same object behaves like a freshly built object):
  1. invalid data: every invalid-input class the estimator's validation may reject
  2. the k-th inner estimator raising (probe estimators told to fail on their k-th fit), serial and threaded
  3. every fallible call site of fit found by the sys.monitoring census (vrt/failpoints.py), first and last hit
"""
import numpy

PROPERTY = "C02"
LEVEL = "fault_enumeration"
NEED_EXT = True
REQUIRED = ["frame.fit", "frame.methods", "fault.invalid_data", "fault.inner_estimator", "fault.call_site",
            "atomicity.refit", "upstream.monitored_calls"]
RULE = ("for each of the fittable registered classes and each configuration: one clean fit + every output method "
        "under the frame monitor; 20 invalid-data classes; probe estimators failing on their k-th fit for every k "
        "seen in the clean run (serial and n_jobs=4); every fallible call site of fit from the census at its first and "
        "last hit (quick: all sites of the two anchored fits and a sample of the others; thorough: all); non-trivial = "
        "a fault that made fit raise after at least one statement of fit ran; distinct = distinct (class, "
        "configuration, fault)")
ASSUMPTIONS = ["copy_x=False / copy_X=False configurations are documented to overwrite the input and are not judged "
               "for input bytes",
               "faults inside compiled code (allocation failures in a criterion) are not injected",
               "the reference for 'a later successful fit' is a freshly built object of the same configuration fitted "
               "on the same data under the same NumPy seed"]
CASE_TIMEOUT = 150
SHARD_TIMEOUT = {"quick": 300, "thorough": 1800}

FITTABLE = ["QuantileLinearRegression", "PiecewiseRegressor", "PiecewiseClassifier", "PiecewiseTreeRegressor",
            "DecisionTreeLogisticRegression", "KMeansL1L2", "ConstraintKMeans", "ClassifierAfterKMeans",
            "ExtendedFeatures", "IntervalRegressor", "ApproximateNMFPredictor", "PredictableTSNE",
            "TransformedTargetRegressor2", "TransformedTargetClassifier2", "TransferTransformer",
            "FunctionReciprocalTransformer", "PermutationReciprocalTransformer", "CategoriesToIntegers",
            "TraceableCountVectorizer", "TraceableTfidfVectorizer", "SkBaseTransformLearner",
            "SkBaseTransformStacking", "DummyTimeSeriesRegressor"]


def cases(tier, seed):
    out = []
    for name in FITTABLE:
        out.append({"gen": "frame", "id": "frame-%s" % name, "cls": name, "sub": seed})
        out.append({"gen": "invalid", "id": "invalid-%s" % name, "cls": name, "sub": seed})
        out.append({"gen": "sites", "id": "sites-%s" % name, "cls": name, "sub": seed, "tier": tier})
    for name in ("PiecewiseRegressor", "PiecewiseClassifier", "IntervalRegressor", "ClassifierAfterKMeans",
                 "TransformedTargetRegressor2", "TransformedTargetClassifier2", "SkBaseTransformLearner",
                 "SkBaseTransformStacking", "DecisionTreeLogisticRegression", "PredictableTSNE"):
        out.append({"gen": "inner", "id": "inner-%s" % name, "cls": name, "sub": seed, "tier": tier})
    out.append({"gen": "tsdiff", "id": "tsdiff", "sub": seed})
    # upstream's own tests as a workload: call histories this harness did not write, under class-level monitors
    files = UPSTREAM_QUICK if tier == "quick" else None
    for f in upstream_files(files):
        out.append({"gen": "upstream", "id": "upstream-%s" % f.replace("/", "-"), "file": f})
    return out


UPSTREAM_QUICK = ["ut_mlmodel/test_sklearn_kmeans_constraint.py", "ut_mlmodel/test_piecewise_regressor.py",
                  "ut_mlmodel/test_piecewise_classifier.py", "ut_mlmodel/test_quantile_regression.py",
                  "ut_mlmodel/test_interval_regressor.py", "ut_mlmodel/test_target_predictors.py",
                  "ut_mlmodel/test_kmeans_l1.py", "ut_mlmodel/test_extended_features.py",
                  "ut_mlmodel/test_transfer_transformer.py", "ut_mlmodel/test_classification_kmeans.py",
                  "ut_mlmodel/test_decision_tree_logistic_regression.py", "ut_sklapi/test_sklearn_stacking.py"]


def upstream_files(only=None):
    import glob
    import os
    from vrt import build_ext
    root = os.path.join(build_ext.repo_root(), "_unittests")
    out = []
    for sub in ("ut_mlmodel", "ut_mltree", "ut_timeseries", "ut_sklapi"):
        for f in sorted(glob.glob(os.path.join(root, sub, "test_*.py"))):
            rel = os.path.relpath(f, root)
            if "LONG" in rel or "torch" in rel:
                continue
            if only is None or rel in only:
                out.append(rel)
    return out


# ------------------------------------------------------------------ fingerprints
def pfp(v, depth=0):
    """Fingerprint of a parameter value: type and content (estimators: identity and recursive params)."""
    if hasattr(v, "get_params") and not isinstance(v, type):
        try:
            sub = tuple(sorted((k, pfp(x, depth + 1)) for k, x in v.get_params(deep=False).items())) \
                if depth < 4 else ()
        except Exception as e:
            sub = ("get_params raised", type(e).__name__)
        return ("est", type(v).__name__, id(v), sub)
    if isinstance(v, numpy.ndarray):
        return ("nd", v.shape, str(v.dtype), v.tobytes())
    if isinstance(v, (list, tuple)):
        return (type(v).__name__, tuple(pfp(x, depth + 1) for x in v))
    if isinstance(v, dict):
        return ("dict", tuple(sorted((repr(k), pfp(x, depth + 1)) for k, x in v.items())))
    if callable(v):
        return ("callable", getattr(v, "__name__", type(v).__name__), id(v))
    return (type(v).__name__, repr(v))


def params_fp(est):
    try:
        p = est.get_params(deep=True)
    except Exception as e:
        return {"<get_params>": ("raised", type(e).__name__)}
    return {k: pfp(v) for k, v in p.items()}


def data_fp(D):
    import pandas
    out = {}
    for k, v in D.items():
        if v is None:
            out[k] = None
        elif isinstance(v, numpy.ndarray):
            out[k] = (v.shape, str(v.dtype), v.strides, v.tobytes())
        elif isinstance(v, pandas.DataFrame):
            out[k] = (tuple(v.columns), tuple(map(str, v.dtypes)), tuple(v.index), v.to_numpy(dtype=object).tolist().__repr__())
        else:
            out[k] = repr(v)
    return out


def diff_fp(a, b):
    return [k for k in sorted(set(a) | set(b)) if a.get(k) != b.get(k)]


def copy_flag_off(est):
    try:
        p = est.get_params(deep=True)
    except Exception:
        return False
    return any(k.split("__")[-1] in ("copy_x", "copy_X", "copy") and v is False for k, v in p.items())


def same_out(a, b):
    from vrt.props.c01 import same_out as so
    return so(a, b)


def reference_outputs(spec, vi, D, rng_seed=11, make=None):
    ref = (make or (lambda: spec.make(vi)))()
    numpy.random.seed(rng_seed)
    spec.fit(ref, D)
    Q = spec.query(numpy.random.RandomState(8), D)
    return spec.outputs(ref, Q), Q


def atomicity(ctx, spec, vi, est, before_fp, fault, cfg, K, make=None, data=None):
    """After a fault: parameters as before, and a later successful fit == a freshly built object's fit."""
    after = params_fp(est)
    d = diff_fp(before_fp, after)
    if d:
        ctx.violation(K + "params-changed-after-failed-fit/%s" % fault,
                      "after the failed fit get_params differs in %r" % (d[:4],), cfg=cfg)
    D = data if data is not None else spec.data(numpy.random.RandomState(7))
    try:
        ref, Q = reference_outputs(spec, vi, D, make=make)
    except Exception:
        ctx.excluded("atomicity: reference fit impossible")
        return
    D2 = data if data is not None else spec.data(numpy.random.RandomState(7))
    try:
        numpy.random.seed(11)
        spec.fit(est, D2)
        got = spec.outputs(est, Q)
    except Exception as e:
        ctx.hit("atomicity.refit")
        ctx.violation(K + "refit-after-failure-raises/%s" % fault,
                      "after a failed fit, fitting valid data raises %s: %s (a freshly built object fits it)" % (
                          type(e).__name__, str(e)[:120]), cfg=cfg)
        return
    ctx.hit("atomicity.refit")
    for m in ref:
        if m not in got or not same_out(ref[m], got[m]):
            ctx.violation(K + "refit-after-failure-differs/%s" % fault,
                          "after a failed fit, a successful fit gives another %s than a freshly built object" % m,
                          cfg=cfg)
            return


# ------------------------------------------------------------------ generators
def run_frame(case, ctx):
    from vrt import registry
    spec = registry.get(case["cls"])
    K = "C02/%s/" % spec.name
    for vi in range(len(spec.variants)):
        for weighted in (False, True, "some-zero", "mostly-zero", "zero-on-one-side", "zero-weight-blob", "square-table"):
            cfg = {"class": spec.name, "variant": vi, "weighted": weighted}
            est = spec.make(vi)
            D = spec.data(numpy.random.RandomState(3))
            if weighted:
                nrow_ = len(D["y"]) if "y" in D else len(D["X"])
                if spec.no_weights or not isinstance(D["X"], numpy.ndarray):
                    continue
                if "y" not in D and spec.name not in ("ConstraintKMeans", "KMeansL1L2"):
                    continue
                D["w"] = numpy.random.RandomState(4).rand(nrow_) + 0.5
                if weighted == "zero-weight-blob":
                    # three well separated groups of equal size, one of which weighs nothing
                    if "y" in D:
                        continue
                    r_ = numpy.random.RandomState(8)
                    d_ = D["X"].shape[1]
                    cen_ = numpy.zeros((3, d_))
                    cen_[1, :] = 5.0
                    cen_[2, 0] = 10.0
                    D["X"] = numpy.vstack([r_.randn(10, d_) * 0.3 + c_ for c_ in cen_])
                    D["w"] = numpy.full(30, 2.0)
                    D["w"][10:20] = 0.0
                elif weighted == "square-table":
                    # as many rows as columns: a weight vector has the length of a coefficient vector (an inner estimator
                    # that takes its arguments by position could adopt one for the other)
                    if "y" not in D or D["X"].ndim != 2 or D["X"].shape[0] < D["X"].shape[1]:
                        continue
                    d_ = D["X"].shape[1]
                    D["X"] = numpy.ascontiguousarray(D["X"][:d_])
                    D["y"] = numpy.asarray(D["y"])[:d_].copy()
                    D["w"] = numpy.ascontiguousarray(numpy.random.RandomState(4).rand(d_) + 0.5)
                elif weighted == "some-zero":
                    D["w"][numpy.random.RandomState(5).rand(nrow_) < 0.3] = 0.0
                elif weighted == "mostly-zero":
                    # only a few rows carry weight: whole clusters / buckets / resamples weigh nothing
                    keep_ = numpy.random.RandomState(6).choice(nrow_, max(3, nrow_ // 8), replace=False)
                    z_ = numpy.zeros(nrow_)
                    z_[keep_] = D["w"][keep_]
                    D["w"] = z_
                elif weighted == "zero-on-one-side":
                    # a spatially coherent part of the table weighs nothing (all the points of a cluster / a bucket)
                    x0_ = numpy.asarray(D["X"], dtype=float)[:, 0]
                    D["w"][x0_ > numpy.quantile(x0_, 0.6)] = 0.0
            p0, d0 = params_fp(est), data_fp(D)
            numpy.random.seed(5)
            try:
                r = spec.fit(est, D)
            except Exception as e:
                if weighted:
                    ctx.excluded("sample_weight not supported by this configuration")
                    continue
                ctx.hit("frame.fit")
                ctx.violation(K + "fit/raised/%s" % type(e).__name__, "fit raised on valid data: %s" % str(e)[:150],
                              cfg=cfg)
                continue
            ctx.hit("frame.fit")
            if r is not est:
                ctx.violation(K + "fit/returns-not-self", "fit returned %r" % type(r).__name__, cfg=cfg)
            d = diff_fp(p0, params_fp(est))
            if d:
                ctx.violation(K + "fit/params-changed", "fit changed get_params: %r" % (d[:4],), cfg=cfg)
            dd = diff_fp(d0, data_fp(D))
            if dd and not copy_flag_off(est):
                ctx.violation(K + "fit/input-modified", "fit wrote into the caller's %r" % (dd,), cfg=cfg)
            Q = spec.query(numpy.random.RandomState(6), D)
            import pandas
            qd = {"Q": Q} if not isinstance(Q, tuple) else {"Q%d" % i: q for i, q in enumerate(Q)}
            qd = {k: (v if isinstance(v, (numpy.ndarray, pandas.DataFrame)) else list(v)) for k, v in qd.items()}
            for m in spec.methods:
                if m == "predict_leaves" and not hasattr(est, "leaves_index_"):
                    continue
                p1, q0 = params_fp(est), data_fp(qd)
                try:
                    spec.outputs(est, Q, [m])
                except Exception as e:
                    ctx.violation(K + "%s/raised/%s" % (m, type(e).__name__), str(e)[:150], cfg=cfg)
                    continue
                ctx.hit("frame.methods")
                d = diff_fp(p1, params_fp(est))
                if d:
                    ctx.violation(K + "%s/params-changed" % m, "%s changed get_params: %r" % (m, d[:4]), cfg=cfg)
                if diff_fp(q0, data_fp(qd)):
                    ctx.violation(K + "%s/input-modified" % m, "%s wrote into the caller's batch" % m, cfg=cfg)
            if hasattr(est, "score") and spec.kind == "xy" and "y" in D:
                p1 = params_fp(est)
                try:
                    est.score(D["X"], D["y"])
                    ctx.hit("frame.methods")
                    d = diff_fp(p1, params_fp(est))
                    if d:
                        ctx.violation(K + "score/params-changed", "score changed get_params: %r" % (d[:4],), cfg=cfg)
                    if diff_fp(d0, data_fp(D)) and not copy_flag_off(est):
                        ctx.violation(K + "score/input-modified", "score wrote into the caller's data", cfg=cfg)
                except Exception:
                    ctx.excluded("score not available")
            # a weighted score: the caller's weights (a writeable float64 array) are read, not rescaled in place
            if hasattr(est, "score") and spec.kind == "xy" and "y" in D and not spec.no_weights:
                wsc = numpy.random.RandomState(9).rand(len(D["y"])) + 0.5
                wk = wsc.copy()
                p1 = params_fp(est)
                try:
                    est.score(D["X"], D["y"], sample_weight=wsc)
                    ctx.hit("frame.weighted_score")
                    if not numpy.array_equal(wsc, wk):
                        ctx.violation(K + "score/input-modified/sample_weight", "score wrote into the caller's "
                                      "sample_weight", cfg=cfg)
                    if diff_fp(p1, params_fp(est)):
                        ctx.violation(K + "score/params-changed", "weighted score changed get_params", cfg=cfg)
                except Exception:
                    ctx.excluded("weighted score not available")
            # calls that are refused (a batch of another width, None): nothing they report or hold changes either,
            # and the next valid call answers as before
            for m in spec.methods:
                if m == "predict_leaves" and not hasattr(est, "leaves_index_"):
                    continue
                import pandas as _pd
                if isinstance(Q, _pd.DataFrame) and Q.shape[1] >= 2:
                    # a frame that lacks one of the columns seen at fit time (each in turn), a frame with other names
                    bads = [Q.drop(columns=[c_]) for c_ in Q.columns[:3]] + [
                        Q.rename(columns={c_: "zz_%s" % c_ for c_ in Q.columns}), None]
                elif isinstance(Q, numpy.ndarray) and Q.ndim == 2:
                    bads = [numpy.ones((3, Q.shape[1] + 2)), None]
                else:
                    break
                try:
                    ref_m = spec.outputs(est, Q, [m])[m]
                except Exception:
                    continue
                p1 = params_fp(est)
                for bad in bads:
                    try:
                        getattr(est, m)(bad)
                        continue
                    except Exception:
                        ctx.hit("frame.refused_calls")
                    if diff_fp(p1, params_fp(est)):
                        ctx.violation(K + "%s/params-changed/refused-call" % m, "a refused %s call changed get_params: "
                                      "%r" % (m, diff_fp(p1, params_fp(est))[:3]), cfg=cfg)
                        break
                try:
                    again_m = spec.outputs(est, Q, [m])[m]
                    if not same_out(ref_m, again_m):
                        ctx.violation(K + "%s/changed-by-refused-calls" % m, "%s answers differently after calls that "
                                      "were refused" % m, cfg=cfg)
                except Exception as e:
                    ctx.violation(K + "%s/raised-after-refused-calls/%s" % (m, type(e).__name__), str(e)[:120], cfg=cfg)
            ctx.nontriv("frame", spec.name, vi, weighted)
    if spec.name.startswith("Traceable"):
        # a corpus that is already tokenised (documents are lists of tokens, tokenizer and preprocessor hand them
        # through): fit, fit_transform and transform read the caller's documents, they do not rewrite them
        import copy as _copy
        cls_ = type(spec.make(0))

        def ident(d_):
            return d_
        docs = [["aa", "bb", "aa"], ["the", "cat"], [], ["bb", "cc", "dd", "aa"], ["dog"]]
        for opts_ in (dict(), dict(ngram_range=(1, 2)), dict(stop_words=["the"]), dict(ngram_range=(2, 3), binary=True)):
            cfg = {"class": spec.name, "documents": "lists of tokens", "options": {k_: repr(v_) for k_, v_ in opts_.items()}}
            try:
                v_ = cls_(tokenizer=ident, preprocessor=ident, lowercase=False, token_pattern=None, **opts_)
                held = _copy.deepcopy(docs)
                mine = _copy.deepcopy(docs)
                v_.fit(mine)
                ok1 = mine == held
                v_.fit_transform(mine)
                ok2 = mine == held
                v_.transform(mine)
                ok3 = mine == held
            except Exception as e:
                ctx.excluded("pre-tokenised corpus refused: %s" % type(e).__name__)
                continue
            ctx.hit("frame.tokenised_corpus")
            if not (ok1 and ok2 and ok3):
                ctx.violation(K + "%s/input-modified/tokenised-corpus" % ("fit" if not ok1 else "fit_transform" if not ok2
                                                                            else "transform"),
                              "the caller's documents (lists of tokens) were rewritten: %r" % (mine[:2],), cfg=cfg)
    ctx.cls("class=" + spec.name)
    # a documented option that needs an optional dependency (verbose='tqdm'): whether the fit runs or is refused because
    # the package is missing, the option is reported unchanged afterwards
    for vi in range(len(spec.variants)):
        est = spec.make(vi)
        if "verbose" not in est.get_params(deep=False) or not hasattr(type(est), "fit"):
            continue
        if not type(est).__module__.startswith("mlinsights.mlmodel.piecewise_estimator") and \
                not type(est).__module__.startswith("mlinsights.mlmodel.interval_regressor"):
            continue
        D = spec.data(numpy.random.RandomState(3))
        est.set_params(verbose="tqdm")
        p1 = params_fp(est)
        try:
            spec.fit(est, D)
            outcome = "fit ran"
        except Exception as e:
            outcome = "fit raised %s" % type(e).__name__
        ctx.hit("frame.optional_dependency_option")
        d = diff_fp(p1, params_fp(est))
        if d:
            ctx.violation(K + "fit/params-changed/verbose-tqdm", "verbose='tqdm' (%s): get_params differs afterwards in "
                          "%r (now %r)" % (outcome, d[:3], est.get_params(deep=False).get("verbose")),
                          cfg={"class": spec.name, "variant": vi, "verbose": "tqdm"})
    # configurations whose methods are documented to refuse: the refusal changes no parameter, however often it is asked
    if spec.name == "ConstraintKMeans":
        import mlinsights.mlmodel as mm
        Xc = numpy.random.RandomState(3).randn(30, 2)
        est = mm.ConstraintKMeans(n_clusters=3, strategy="weights", balanced_predictions=True, random_state=0,
                                  max_iter=4, n_init=1)
        try:
            est.fit(Xc)
        except Exception:
            est = None
        if est is not None:
            p1 = params_fp(est)
            for rep in range(2):
                for m in ("predict", "transform", "score"):
                    try:
                        getattr(est, m)(Xc[:6])
                        outcome = "returned"
                    except Exception as e:
                        outcome = type(e).__name__
                    ctx.hit("frame.refused_calls")
                    d = diff_fp(p1, params_fp(est))
                    if d:
                        ctx.violation(K + "%s/params-changed/refused-configuration" % m, "%s (%s) with strategy='weights'"
                                      " and balanced_predictions=True changed get_params: %r" % (m, outcome, d[:3]),
                                      cfg={"class": spec.name, "strategy": "weights", "balanced_predictions": True})
                        break


def invalid_datasets(spec, D):
    """(label, dataset) pairs: every class of invalid input the parent's validation may reject."""
    import pandas
    out = []
    X = D["X"]
    if isinstance(X, numpy.ndarray) and X.dtype.kind == "f":
        def mod(f, label, y=False):
            D2 = {k: (v.copy() if hasattr(v, "copy") else v) for k, v in D.items()}
            f(D2)
            out.append((label, D2))
        mod(lambda d: d["X"].__setitem__((0, 0), numpy.nan), "nan-in-X")
        mod(lambda d: d["X"].__setitem__((1, 0), numpy.inf), "inf-in-X")
        mod(lambda d: d.__setitem__("X", d["X"][:0]), "zero-rows")
        mod(lambda d: d.__setitem__("X", d["X"][:1]) or ("y" in d and d.__setitem__("y", d["y"][:1])), "one-row")
        mod(lambda d: d.__setitem__("X", d["X"][:2]) or ("y" in d and d.__setitem__("y", d["y"][:2])), "two-rows")
        mod(lambda d: d.__setitem__("X", d["X"][:, 0]), "X-1d")
        mod(lambda d: d.__setitem__("X", d["X"].reshape(d["X"].shape + (1,))), "X-3d")
        mod(lambda d: d.__setitem__("X", d["X"].astype(object)) or d["X"].__setitem__((0, 0), "a"), "object-dtype")
        mod(lambda d: d.__setitem__("X", -numpy.abs(d["X"]) - 1), "negative-X")
        mod(lambda d: d.__setitem__("X", d["X"][:, :0]), "zero-columns")
        if "y" in D:
            mod(lambda d: d.__setitem__("y", d["y"][:-3]), "length-mismatch")
            if D["y"].dtype.kind == "f":
                mod(lambda d: d["y"].__setitem__(0, numpy.nan), "nan-in-y")
            mod(lambda d: d.__setitem__("y", None), "y-none")
            mod(lambda d: d.__setitem__("y", numpy.arange(len(d["y"])) % 5), "five-labels")
            mod(lambda d: d.__setitem__("y", numpy.zeros(len(d["y"]), dtype=int)), "single-label")
            mod(lambda d: d.__setitem__("w", -numpy.ones(len(d["y"]))), "negative-weights")
            mod(lambda d: d.__setitem__("w", numpy.ones(3)), "weights-length-mismatch")
            mod(lambda d: d.__setitem__("w", numpy.array(["a"] * len(d["y"]))), "string-weights")
            mod(lambda d: d.__setitem__("w", {"a": 1.0}), "dict-weights")
            mod(lambda d: d.__setitem__("w", [[1.0, 2.0], [3.0]] + [[1.0]] * (len(d["y"]) - 2)), "ragged-weights")
            mod(lambda d: d.__setitem__("w", numpy.where(numpy.arange(len(d["y"])) == 3, numpy.nan, 1.0)),
                "nan-weights")
            mod(lambda d: d.__setitem__("w", numpy.ones((len(d["y"]), 2))), "weights-2d")
            mod(lambda d: d.__setitem__("w", numpy.zeros(len(d["y"]))), "all-zero-weights")
    elif isinstance(X, pandas.DataFrame):
        out.append(("not-a-frame", {"X": X.to_numpy()}))
        out.append(("empty-frame", {"X": X.iloc[:0]}))
        out.append(("missing-column", {"X": X.drop(columns=[X.columns[0]])}))
    elif isinstance(X, list):
        out.append(("not-strings", {"X": [1, 2, 3]}))
        out.append(("empty-corpus", {"X": []}))
        out.append(("only-stop-words", {"X": ["", " "]}))
        out.append(("a-string-not-a-list", {"X": "aa bb"}))
    return out


def run_invalid(case, ctx):
    from vrt import registry
    spec = registry.get(case["cls"])
    K = "C02/%s/" % spec.name
    for vi in range(len(spec.variants)):
        D = spec.data(numpy.random.RandomState(3))
        for label, Dbad in invalid_datasets(spec, D):
            cfg = {"class": spec.name, "variant": vi, "invalid": label}
            est = spec.make(vi)
            p0, d0 = params_fp(est), data_fp(Dbad)
            raised = None
            numpy.random.seed(5)
            try:
                spec.fit(est, Dbad)
            except BaseException as e:  # noqa: B036 - whatever the validation raises is a failing fit
                if isinstance(e, (KeyboardInterrupt, SystemExit)):
                    raise
                raised = e
            ctx.hit("fault.invalid_data")
            ctx.cls("invalid=" + label)
            dd = diff_fp(d0, data_fp(Dbad))
            if dd and not copy_flag_off(est):
                ctx.violation(K + "fit/input-modified/%s" % ("failed-fit" if raised else "accepted"),
                              "fit wrote into the caller's %r (invalid input class %s, fit %s)" % (
                                  dd, label, "raised" if raised else "accepted it"), cfg=cfg)
            if raised is None:
                d = diff_fp(p0, params_fp(est))
                if d:
                    ctx.violation(K + "fit/params-changed", "fit changed get_params: %r" % (d[:4],), cfg=cfg)
                ctx.excluded("invalid-input-class-accepted-by-fit")
                continue
            atomicity(ctx, spec, vi, est, p0, "invalid-data", cfg, K)
            ctx.nontriv("invalid", spec.name, vi, label)
    ctx.cls("class=" + spec.name)


def run_sites(case, ctx):
    from vrt import registry, failpoints
    from vrt.probes import InjectedFault
    spec = registry.get(case["cls"])
    K = "C02/%s/" % spec.name
    tier = case.get("tier", "quick")
    anchored = spec.name in ("ConstraintKMeans", "PiecewiseTreeRegressor")
    census_all = {}
    for vi in range(len(spec.variants)):
        est = spec.make(vi)
        D = spec.data(numpy.random.RandomState(3))
        numpy.random.seed(5)
        res, sites, hits = failpoints.census(lambda: spec.fit(est, D))
        if isinstance(res, Exception):
            ctx.excluded("census: clean fit raised")
            continue
        keys = sorted(sites)
        census_all["v%d" % vi] = [list(k) + [sites[k][:2], hits[k]] for k in keys]
        if tier == "quick" and not anchored and len(keys) > 4:
            rng = numpy.random.RandomState(case["sub"] + vi)
            keys = [keys[i] for i in sorted(rng.choice(len(keys), 4, replace=False))]
        for site in keys:
            # an ordinary exception at the first and at the last hit of the site, and the user's Ctrl-C
            # (KeyboardInterrupt is not an Exception: `except Exception` does not see it) at the first hit
            for nth, exc in [(n_, InjectedFault) for n_ in sorted({1, hits[site]})] + [(1, KeyboardInterrupt)]:
                cfg = {"class": spec.name, "variant": vi, "site": list(site), "hit": nth, "callees": sites[site][:2],
                       "raises": exc.__name__}
                e2 = spec.make(vi)
                D2 = spec.data(numpy.random.RandomState(3))
                p0, d0 = params_fp(e2), data_fp(D2)
                numpy.random.seed(5)
                fired = False
                try:
                    with failpoints.Inject(site, nth, exc) as inj:
                        spec.fit(e2, D2)
                    fired = inj.fired
                except (InjectedFault, KeyboardInterrupt):
                    fired = True
                    if exc is KeyboardInterrupt:
                        ctx.hit("fault.call_site.keyboard_interrupt")
                except Exception as e:
                    # the fault was swallowed and turned into another failure: still a failed fit
                    fired = True
                    ctx.cls("fault-converted-to-%s" % type(e).__name__)
                if not fired:
                    ctx.excluded("site-not-reached-on-rerun")
                    continue
                ctx.hit("fault.call_site")
                if diff_fp(d0, data_fp(D2)) and not copy_flag_off(e2):
                    ctx.violation(K + "fit/input-modified/failed-fit", "fit wrote into the caller's data before "
                                  "failing at %s:%s:%s" % tuple(site), cfg=cfg)
                where = "%s:%s" % (site[0].rsplit("/", 1)[-1], site[1])
                if exc is KeyboardInterrupt:
                    where += "/KeyboardInterrupt"
                atomicity(ctx, spec, vi, e2, p0, "call-site/%s" % where, cfg, K)
                ctx.nontriv("site", spec.name, vi, site, nth)
    ctx.extra["census"] = {spec.name: census_all}
    ctx.cls("class=" + spec.name)


def inner_factories(name):
    """(label, builder(fail_on) -> estimator, n inner fits expected at least) for meta-estimators."""
    from sklearn.linear_model import LinearRegression, LogisticRegression
    from sklearn.tree import DecisionTreeRegressor, DecisionTreeClassifier
    from sklearn.cluster import KMeans
    import mlinsights.mlmodel as mm
    import mlinsights.sklapi as sk
    from mlinsights.mlmodel.sklearn_transform_inv_fct import PermutationReciprocalTransformer
    from vrt.probes import RecRegressor, RecClassifier
    R = lambda f: RecRegressor(base="linear", tag="p", fail_on=f)        # noqa: E731
    C = lambda f: RecClassifier(base="logistic", tag="p", fail_on=f)     # noqa: E731
    table = {
        "PiecewiseRegressor": [
            ("estimator", lambda f, nj: mm.PiecewiseRegressor(DecisionTreeRegressor(max_depth=2), R(f), n_jobs=nj)),
        ],
        "PiecewiseClassifier": [
            ("estimator", lambda f, nj: mm.PiecewiseClassifier(DecisionTreeClassifier(max_depth=2), C(f), n_jobs=nj,
                                                               random_state=0)),
        ],
        "IntervalRegressor": [("estimator", lambda f, nj: mm.IntervalRegressor(R(f), n_estimators=4, n_jobs=nj))],
        "ClassifierAfterKMeans": [("estimator", lambda f, nj: mm.ClassifierAfterKMeans(
            C(f), KMeans(n_clusters=2, n_init=1, random_state=0)))],
        "TransformedTargetRegressor2": [("regressor", lambda f, nj: mm.TransformedTargetRegressor2(R(f), "log"))],
        "TransformedTargetClassifier2": [("classifier", lambda f, nj: mm.TransformedTargetClassifier2(
            C(f), PermutationReciprocalTransformer(1)))],
        "SkBaseTransformLearner": [("model", lambda f, nj: sk.SkBaseTransformLearner(C(f), "predict_proba"))],
        "SkBaseTransformStacking": [("models", lambda f, nj: sk.SkBaseTransformStacking(
            [LogisticRegression(), C(f), DecisionTreeClassifier(max_depth=2)], "predict_proba"))],
        "DecisionTreeLogisticRegression": [
            ("estimator", lambda f, nj: mm.DecisionTreeLogisticRegression(C(f), max_depth=3, fit_improve_algo="none")),
            ("estimator/auto", lambda f, nj: mm.DecisionTreeLogisticRegression(
                C(f), max_depth=3, fit_improve_algo="auto", min_samples_leaf=2)),
            ("estimator/intercept_sort", lambda f, nj: mm.DecisionTreeLogisticRegression(
                C(f), max_depth=4, fit_improve_algo="intercept_sort", min_samples_leaf=2))],
        "PredictableTSNE": [("estimator", lambda f, nj: mm.PredictableTSNE(
            estimator=R(f), transformer=__import__("sklearn.manifold", fromlist=["TSNE"]).TSNE(
                perplexity=4, max_iter=250, random_state=0)))],
    }
    return table[name]


def run_inner(case, ctx):
    from vrt import registry, probes
    spec = registry.get(case["cls"])
    K = "C02/%s/" % spec.name
    tier = case.get("tier", "quick")
    for label, build in inner_factories(spec.name):
        for nj in ((None, 4) if spec.name in ("PiecewiseRegressor", "PiecewiseClassifier", "IntervalRegressor")
                   else (None,)):
            # clean run: how many inner fits happen?
            probes.RECORDER.clear()
            clean = build(None, nj)
            D = spec.data(numpy.random.RandomState(3))
            if spec.name == "TransformedTargetRegressor2":
                D = dict(D, y=numpy.abs(D["y"]) + 0.1)
            try:
                numpy.random.seed(5)
                spec.fit(clean, D)
            except Exception as e:
                ctx.excluded("inner: clean fit with probes raised %s" % type(e).__name__)
                continue
            nfits = sum(1 for ev in probes.RECORDER.signature() if ev[0] == "fit-start")
            ks = list(range(1, nfits + 1))
            if tier == "quick" and len(ks) > 5:
                ks = sorted({1, 2, nfits // 2, nfits - 1, nfits})
            for k in ks:
                cfg = {"class": spec.name, "param": label, "k": k, "of": nfits, "n_jobs": nj}
                fa = probes.FailAt(k)
                est = build(fa, nj)
                Dk = dict(D)
                p0, d0 = params_fp(est), data_fp(Dk)
                raised = None
                numpy.random.seed(5)
                try:
                    spec.fit(est, Dk)
                except BaseException as e:  # noqa: B036
                    if isinstance(e, (KeyboardInterrupt, SystemExit)):
                        raise
                    raised = e
                ctx.hit("fault.inner_estimator")
                if raised is None:
                    ctx.violation(K + "fit/inner-failure-swallowed", "the %d-th inner fit raised but fit returned "
                                  "normally" % k, cfg=cfg)
                    continue
                if diff_fp(d0, data_fp(Dk)):
                    ctx.violation(K + "fit/input-modified/failed-fit", "fit wrote into the caller's data before the "
                                  "%d-th inner fit failed" % k, cfg=cfg)
                # disarm the probe (the counter already passed k) and check atomicity against a fresh build
                atomicity(ctx, spec, 0, est, p0, "inner-estimator-%s" % ("threads" if nj else "serial"), cfg, K,
                          make=lambda: build(None, nj), data=D)
                ctx.nontriv("inner", spec.name, label, k, nj)
    ctx.cls("class=" + spec.name)


def run_upstream(case, ctx):
    """Run one upstream test file in-process with the frame monitor installed on every registered class.
    The tests' own verdicts are ignored; only the monitor's observations count."""
    import io
    import os
    import contextlib
    import pytest
    from vrt import kernel, registry, build_ext
    classes = []
    for spec in registry.specs():
        cls = type(spec.make(0))
        for c in cls.__mro__:
            if c.__module__.startswith("mlinsights.") and c not in classes:
                classes.append(c)
    methods = ["fit", "predict", "predict_proba", "decision_function", "transform", "score", "predict_all",
               "predict_sorted", "transform_bins", "predict_leaves", "decision_path"]
    seen = {"calls": 0}

    def arrays(args, kwargs):
        import pandas
        out = []
        for a in list(args[:3]) + [kwargs.get(k) for k in ("X", "y", "sample_weight")]:
            if isinstance(a, (numpy.ndarray, pandas.DataFrame)):
                out.append(a)
        return out

    def before(obj, name, args, kwargs):
        arrs = arrays(args, kwargs)
        return (params_fp(obj), [data_fp({"a": a}) for a in arrs], arrs)

    def after(obj, name, args, kwargs, token, res):
        p0, d0, arrs = token
        seen["calls"] += 1
        ctx.hit("upstream.monitored_calls")
        failed = isinstance(res, BaseException)
        cfg = {"class": type(obj).__name__, "method": name, "test_file": case["file"],
               "raised": type(res).__name__ if failed else None}
        K = "C02/%s/" % type(obj).__name__
        d = diff_fp(p0, params_fp(obj))
        if d:
            ctx.violation(K + ("params-changed-after-failed-%s/upstream" % name if failed
                               else "%s/params-changed" % name),
                          "upstream test workload: %s %s changed get_params: %r" % (
                              name, "raised and" if failed else "", d[:4]), cfg=cfg)
        if not copy_flag_off(obj):
            for a, fp0 in zip(arrs, d0):
                if data_fp({"a": a}) != fp0:
                    ctx.violation(K + "%s/input-modified" % name, "upstream test workload: %s wrote into its "
                                  "argument" % name, cfg=cfg)
                    break
        if name == "fit" and not failed and res is not obj:
            ctx.violation(K + "fit/returns-not-self", "upstream test workload: fit returned %r" % type(res).__name__,
                          cfg=cfg)

    n = kernel.install(classes, methods, before, after)
    path = os.path.join(build_ext.repo_root(), "_unittests", case["file"])
    try:
        buf = io.StringIO()
        with contextlib.redirect_stdout(buf), contextlib.redirect_stderr(buf):
            rc = pytest.main(["-q", "-p", "no:cacheprovider", "--no-header",
                              "-W", "ignore", path])
    finally:
        kernel.uninstall()
    ctx.extra["upstream"] = {case["file"]: {"pytest_rc": int(rc), "monitored_calls": seen["calls"],
                                            "wrapped_methods": n}}
    if seen["calls"]:
        ctx.nontriv("upstream", case["file"])
    ctx.cls("upstream-test-file")


def run_tsdiff(case, ctx):
    """The differencing transformer used directly on the caller's float64 series (inside the regressors it only sees
    internal arrays), every degree: fit and transform read the series, weights and exogenous block - nothing is written."""
    from mlinsights.timeseries.preprocessing import TimeSeriesDifference
    K = "C02/TimeSeriesDifference/"
    for deg in (1, 2, 3, 4):
        for with_X in (False, True):
            for dt in ("float64", "float32", "int64"):
                cfg = {"class": "TimeSeriesDifference", "degree": deg, "with_X": with_X, "dtype": dt}
                r_ = numpy.random.RandomState(deg + case["sub"])
                yy = (numpy.cumsum(r_.randn(20)) * 3.0)
                yy = numpy.round(yy * 10).astype(dt) if dt == "int64" else yy.astype(dt)
                XX = r_.randn(20, 2) if with_X else None
                ww = r_.rand(20) + 0.5
                keep_ = (yy.copy(), None if XX is None else XX.copy(), ww.copy())
                try:
                    t_ = TimeSeriesDifference(deg)
                    p0_ = params_fp(t_)
                    t_.fit(XX, yy, ww)
                    ok_fit = numpy.array_equal(yy, keep_[0]) and (XX is None or numpy.array_equal(XX, keep_[1])) and \
                        numpy.array_equal(ww, keep_[2])
                    t_.transform(XX, yy, ww)
                    ok_tr = numpy.array_equal(yy, keep_[0]) and (XX is None or numpy.array_equal(XX, keep_[1])) and \
                        numpy.array_equal(ww, keep_[2])
                except Exception as e:
                    ctx.excluded("TimeSeriesDifference direct use refused: %s" % type(e).__name__)
                    continue
                ctx.hit("frame.ts_difference_direct")
                if not ok_fit or not ok_tr:
                    ctx.violation(K + "%s/input-modified/direct-use" % ("fit" if not ok_fit else "transform"),
                                  "TimeSeriesDifference(%d) wrote into the caller's %s series" % (deg, dt), cfg=cfg)
                if diff_fp(p0_, params_fp(t_)):
                    ctx.violation(K + "fit/params-changed", "fit changed get_params", cfg=cfg)


def run_case(case, ctx):
    if case["gen"] == "tsdiff":
        return run_tsdiff(case, ctx)
    {"frame": run_frame, "invalid": run_invalid, "sites": run_sites, "inner": run_inner,
     "upstream": run_upstream}[case["gen"]](case, ctx)


def summarize(extras, counters):
    census = {}
    for e in extras:
        census.update(e.get("census", {}))
    nsites = sum(len(v) for c in census.values() for v in c.values())
    anchored = {k: census.get(k) for k in ("ConstraintKMeans", "PiecewiseTreeRegressor")}
    up = {}
    for e in extras:
        up.update(e.get("upstream", {}))
    return {"fault_site_census": {"classes": len(census), "sites_total": nsites, "anchored_fits": anchored},
            "upstream_tests_workload": {"files": len(up),
                                        "monitored_calls": int(sum(v["monitored_calls"] for v in up.values())),
                                        "per_file": up}}


def evaluations(counters, ncases):
    return int(counters.get("frame.fit", 0) + counters.get("fault.invalid_data", 0)
               + counters.get("fault.inner_estimator", 0) + counters.get("fault.call_site", 0))
