"""C07 - ConstraintKMeans produces clusters of equal size.

Post-fit / post-predict invariants on the public outputs plus invariants at hooks placed (from the harness)
on the module-level helpers the algorithm looks up at call time:
  _switch_clusters        must preserve the label histogram and leave no label -1
  _constraint_association_{distance,gain}   on return: no label -1, counters == bincount(labels)
  _randomize_index        called once per pass of the association loop: bounded progress is decided on
                          this logical count (n*k + k passes), never on wall-clock time
"""
import numpy

PROPERTY = "C07"
LEVEL = "exploration"
NEED_EXT = True
REQUIRED = ["fit.distance", "fit.gain", "predict.balanced.distance", "predict.balanced.gain", "predict.nearest",
            "hook.switch_clusters", "hook.association", "hook.passes", "predict.balanced.large_batch"]
RULE = ("n from k to 200 covering every residue n mod k, k 1-9, d 1-4, data classes blobs / duplicates / identical "
        "points / far outlier / unbalanced 90-5-5 / DataFrame, strategies distance and gain, kmeans0 on/off, batches "
        "of size 1, k-1, k, k+1, 3k+2 for balanced prediction, and for one case in six batches of 257, 256+k+1 and 514-516 "
        "rows gathered round one centre; non-trivial = k >= 2 and n > k; distinct = distinct "
        "(class, n, k, d, strategy, kmeans0, seed)")
ASSUMPTIONS = ["dense input; DataFrame input only with kmeans0=True (the random initialisation indexes X[c, :])",
               "nearest-centre clause accepts ties within 1e-9 relative",
               "strategy 'gain' violates the size constraint on the unchanged tree (known findings, keyed by "
               "mechanism: oversized cluster when n mod k >= 2 / internal assert / oversized cluster in balanced "
               "prediction); every other failure of 'gain' and every failure of 'distance' is a violation"]
CASE_TIMEOUT = 300

CLASSES = ["blobs", "duplicates", "identical", "outlier", "unbalanced", "frame"]


class ProgressBound(Exception):
    pass


def cases(tier, seed):
    n = 288 if tier == "quick" else 3000
    return [{"gen": "ckm", "id": "ckm-%d" % i, "sub": seed * 1000003 + i, "tier": tier} for i in range(n)]


def make(rng, cls, tier, sub):
    k = int(rng.randint(1, 10))
    if sub % 12 == 5:
        k = int(rng.randint(17, 27))          # many clusters: more than any short list of "closest clusters" holds
    d = int(rng.randint(1, 5))
    big = 200 if tier == "thorough" else 90
    # cover every residue: n = q*k + r with r cycling
    r = sub % max(k, 1)
    q = int(rng.randint(1, max(2, (big if rng.rand() < 0.1 else 40) // max(k, 1))))
    if k >= 17:
        q = int(rng.randint(3, 7))
    n = max(k, q * k + r)
    if cls == "blobs" or cls == "frame":
        c = rng.randn(k, d) * 5
        X = c[rng.randint(k, size=n)] + rng.randn(n, d)
    elif cls == "duplicates":
        base = rng.randn(max(2, k), d) * 3
        X = base[rng.randint(len(base), size=n)]
    elif cls == "identical":
        X = numpy.tile(rng.randn(1, d), (n, 1))
    elif cls == "outlier":
        X = rng.randn(n, d)
        X[0] += 1e3
    else:
        c = rng.randn(3, d) * 8
        idx = numpy.array([0] * int(0.9 * n) + [1] * ((n - int(0.9 * n)) // 2) + [2] * n)[:n]
        X = c[idx] + rng.randn(n, d)
    return X, k, d, n


def sizes_ok(labels, k, n):
    cnt = numpy.bincount(labels, minlength=k)
    lo, hi = n // k, -(-n // k)
    return cnt, lo, hi, bool(((cnt >= lo) & (cnt <= hi)).all())


def run_case(case, ctx):
    import pandas
    import mlinsights.mlmodel._kmeans_constraint_ as mod
    from mlinsights.mlmodel import ConstraintKMeans
    sub = case["sub"]
    rng = numpy.random.RandomState(sub % (2 ** 31))
    cls = CLASSES[sub % len(CLASSES)]
    strategy = ["distance", "gain"][(sub // len(CLASSES)) % 2]
    X, k, d, n = make(rng, cls, case.get("tier", "quick"), sub // 12)
    xdtype = ["float64", "float64", "float64", "float32", "int64"][rng.randint(5)]
    if xdtype == "float32":
        X = X.astype(numpy.float32)
    elif xdtype == "int64" and cls != "identical":
        X = numpy.round(X * 10).astype(numpy.int64)
    else:
        xdtype = "float64"
    kmeans0 = bool(rng.rand() < 0.6) or cls == "frame"
    max_iter = int([2, 5, 10, 30][rng.randint(4)])
    if (sub // 9) % 6 == 0:
        max_iter = [1, 3][(sub // 54) % 2]      # the smallest budgets (fit halves it for the initial k-means)
    rs = int(rng.randint(0, 1000))
    cfg = {"class": cls, "n": n, "k": k, "d": d, "n_mod_k": n % k, "strategy": strategy, "kmeans0": kmeans0,
           "x_dtype": xdtype,
           "max_iter": max_iter, "random_state": rs, "sub": sub}
    ctx.cls("class=" + cls)
    ctx.cls("x_dtype=" + xdtype)
    ctx.cls("n_mod_k>=2" if n % k >= 2 else "n_mod_k<2")
    K = "C07/%s/" % strategy
    from vrt import layouts
    lay = layouts.pick(sub, 2)
    X = layouts.relayout(X, lay)
    via = (sub // 3) % 4 == 0
    cfg["layout"], cfg["configured_with"] = lay, "set_params" if via else "constructor"
    ctx.cls("layout=" + lay)
    npsc = (sub // 7) % 3 == 0      # hyper-parameters given as NumPy scalars (numpy.True_, numpy.int64(3))
    cfg["numpy_scalar_params"] = npsc
    Xin = pandas.DataFrame(X, columns=["c%d" % i for i in range(d)]) if cls == "frame" else X
    Xk = X.copy()

    # ---- hooks
    reals = {name: getattr(mod, name) for name in ("_switch_clusters", "_constraint_association_distance",
                                                    "_constraint_association_gain", "_randomize_index")}
    st = {"passes": 0, "max_passes": 0, "bound": 0}

    def switch(labels, distances):
        before = numpy.bincount(labels[labels >= 0], minlength=k) if labels.size else None
        had_neg = bool((labels < 0).any())
        out = reals["_switch_clusters"](labels, distances)
        ctx.hit("hook.switch_clusters")
        after = numpy.bincount(labels[labels >= 0], minlength=k)
        if (labels < 0).any() and not had_neg:
            ctx.violation("C07/hook/_switch_clusters/label-lost", "_switch_clusters produced a label -1", cfg=cfg)
        if before is not None and not numpy.array_equal(before, after):
            ctx.violation("C07/hook/_switch_clusters/histogram-changed", "_switch_clusters changed the cluster "
                          "sizes %r -> %r" % (before.tolist(), after.tolist()), cfg=cfg)
        return out

    def assoc(name):
        def f(leftover, counters, labels, leftclose, distances_close, centers, Xa, xsn, limit, strat, state=None):
            st["passes"] = 0
            st["bound"] = Xa.shape[0] * centers.shape[0] + centers.shape[0]
            out = reals[name](leftover, counters, labels, leftclose, distances_close, centers, Xa, xsn, limit, strat,
                              state=state)
            ctx.hit("hook.association")
            st["max_passes"] = max(st["max_passes"], st["passes"])
            if (labels < 0).any() or (labels >= centers.shape[0]).any():
                ctx.violation("C07/hook/%s/invalid-label" % name, "association returned a label outside 0..k-1",
                              cfg=cfg)
            else:
                bc = numpy.bincount(labels, minlength=centers.shape[0])
                if not numpy.array_equal(bc, counters):
                    ctx.violation("C07/hook/%s/counters-disagree" % name,
                                  "counters %r disagree with the label histogram %r" % (counters.tolist(),
                                                                                        bc.tolist()), cfg=cfg)
            return out
        return f

    def randomize(index, weights):
        st["passes"] += 1
        ctx.hit("hook.passes")
        if st["bound"] and st["passes"] > st["bound"]:
            raise ProgressBound("association loop exceeded %d passes" % st["bound"])
        return reals["_randomize_index"](index, weights)

    mod._switch_clusters = switch
    mod._constraint_association_distance = assoc("_constraint_association_distance")
    mod._constraint_association_gain = assoc("_constraint_association_gain")
    mod._randomize_index = randomize
    try:
        numpy.random.seed(rs)
        m = layouts.build(ConstraintKMeans, dict(n_clusters=k, strategy=strategy, kmeans0=kmeans0, max_iter=max_iter,
                                                 random_state=rs, n_init=2), via,
                          as_numpy_scalars=npsc,
                          decoys=dict(n_clusters=k + 3, strategy="gain" if strategy == "distance" else "distance",
                               kmeans0=not kmeans0, max_iter=max_iter + 11, n_init=1, balanced_predictions=False))
        if sub % 4 == 1 and n > k:
            # history: the same object was first used with the other family of strategies ('weights') on other
            # rows, then reconfigured with set_params - nothing of that first life may change the sizes
            try:
                m0 = ConstraintKMeans(n_clusters=max(2, k - 1), strategy="weights", kmeans0=kmeans0, max_iter=3,
                                      random_state=rs, n_init=1)
                Xp = numpy.asarray(X, dtype=float)[: max(k + 1, n // 2)] + 0.5
                m0.fit(Xp)
                m0.predict(Xp[:5])
                m0.set_params(n_clusters=k, strategy=strategy, max_iter=max_iter, n_init=2)
                m = m0
                cfg["history"] = "fit(strategy='weights'), predict, set_params(strategy=%r)" % strategy
                ctx.hit("history.strategy_switch")
            except Exception:
                ctx.excluded("history: the preliminary fit with strategy='weights' is not possible on these rows")
            numpy.random.seed(rs)
        try:
            r = m.fit(Xin)
            err = None
        except ProgressBound as e:
            ctx.hit("fit." + strategy)
            ctx.violation(K + "fit/association-loop-no-progress", str(e), cfg=cfg)
            return
        except AssertionError as e:
            err = e
        except Exception as e:
            err = e
        ctx.hit("fit." + strategy)
        if err is not None:
            if isinstance(err, AssertionError) and "algorithm failed" in str(err) and strategy == "gain":
                ctx.violation("C07/gain/fit/internal-assert", "fit raised the internal assertion: %s" % str(err)[:120],
                              cfg=cfg)
            elif max_iter == 1 and kmeans0 and type(err).__name__ == "InvalidParameterError":
                # fit gives half of the budget to the initial k-means: 1 // 2 = 0 iterations is refused by scikit-learn
                ctx.excluded("max_iter=1 with kmeans0=True: refused (the initial k-means would get 0 iterations)")
            else:
                ctx.violation(K + "fit/raised/%s" % type(err).__name__, "fit raised on valid data (n=%d >= k=%d): %s"
                              % (n, k, str(err)[:200]), cfg=cfg)
            return
        ctx.check(r is m, K + "fit/returns-not-self", "fit did not return the estimator", cfg=cfg)
        lab = numpy.asarray(m.labels_)
        if lab.shape != (n,) or lab.min() < 0 or lab.max() >= k:
            ctx.violation(K + "fit/invalid-label", "labels_ outside 0..k-1 or wrong length", cfg=cfg)
            return
        cnt, lo, hi, ok = sizes_ok(lab, k, n)
        if not ok:
            if strategy == "gain" and cnt.min() >= lo and cnt.max() > hi and n % k >= 2:
                ctx.violation("C07/gain/fit/oversized-cluster/n-mod-k>=2",
                              "sizes %r for n=%d, k=%d (allowed %d..%d)" % (cnt.tolist(), n, k, lo, hi), cfg=cfg)
            else:
                kind = "undersized" if cnt.min() < lo else "oversized"
                ctx.violation(K + "fit/%s-cluster%s" % (kind, "/n-mod-k<2" if n % k < 2 else ""),
                              "sizes %r for n=%d, k=%d (allowed %d..%d)" % (cnt.tolist(), n, k, lo, hi), cfg=cfg)
        C = numpy.asarray(m.cluster_centers_, dtype=float)
        ctx.check(C.shape == (k, d) and bool(numpy.isfinite(C).all()), K + "fit/centres-non-finite",
                  "cluster_centers_ not finite / wrong shape %r" % (C.shape,), cfg=cfg)
        ctx.check(0 <= m.n_iter_ <= max_iter, K + "fit/n_iter-exceeds-max_iter", "n_iter_=%r > max_iter=%r" % (
            m.n_iter_, max_iter), cfg=cfg)
        ctx.check(numpy.array_equal(X, Xk), K + "fit/input-modified", "X was written to", cfg=cfg)
        ctx.check(m.get_params()["max_iter"] == max_iter, K + "fit/max_iter-changed", "max_iter changed by fit",
                  cfg=cfg)
        if not numpy.isfinite(C).all():
            return
        # ---- plain prediction: nearest centre
        Q = numpy.vstack([X[:min(n, 6)], X[rng.randint(n, size=6)] + rng.randn(6, d), rng.randn(4, d) * 20]).astype(
            X.dtype)
        from scipy.spatial.distance import cdist
        p = numpy.asarray(m.predict(Q))
        ctx.hit("predict.nearest")
        D = cdist(Q.astype(float), C)
        own = D[numpy.arange(len(Q)), numpy.clip(p, 0, k - 1)]
        rt = 1e-5 if X.dtype == numpy.float32 else 1e-9
        if p.min() < 0 or p.max() >= k or (own > D.min(axis=1) * (1 + rt) + rt).any():
            ctx.violation(K + "predict/not-nearest-centre", "predict without balanced_predictions is not the "
                          "nearest centre", cfg=cfg)
        # ---- balanced predictions on several batch sizes
        m.set_params(balanced_predictions=numpy.True_ if npsc else True)
        batches = {1, max(1, k - 1), k, k + 1, 3 * k + 2, min(n, 2 * k + 1)}
        large = case["sub"] % 6 == 0 and k >= 2
        if large:
            # batches larger than any internal block size, most rows nearest to ONE centre
            batches |= {257, 256 + k + 1, 514 + (case["sub"] // 6) % 3}
            cfg["large_batches"] = True
        for b in sorted(batches):
            if b > 200:
                B = (C[0] + rng.randn(b, d) * (0.3 * (numpy.abs(C).max() + 1))).astype(X.dtype)
                ctx.hit("predict.balanced.large_batch")
            else:
                B = (X[rng.randint(n, size=b)] + rng.randn(b, d) * 0.5).astype(X.dtype)
            numpy.random.seed(rs + b)
            try:
                pb = numpy.asarray(m.predict(B))
            except ProgressBound as e:
                ctx.violation(K + "predict/association-loop-no-progress", str(e), cfg=cfg, batch=b)
                continue
            except Exception as e:
                if isinstance(e, AssertionError) and "algorithm failed" in str(e) and strategy == "gain":
                    ctx.violation("C07/gain_p/predict/internal-assert", "balanced predict raised the internal "
                                  "assertion", cfg=cfg, batch=b)
                else:
                    ctx.violation(K + "predict/raised/%s" % type(e).__name__, "balanced predict raised: %s" % (
                        str(e)[:150]), cfg=cfg, batch=b)
                continue
            ctx.hit("predict.balanced." + strategy)
            if pb.shape != (b,) or pb.min() < 0 or pb.max() >= k:
                ctx.violation(K + "predict/invalid-label", "balanced predict returned labels outside 0..k-1",
                              cfg=cfg, batch=b)
                continue
            cnt, lo, hi, ok = sizes_ok(pb, k, b)
            if not ok:
                if strategy == "gain" and cnt.min() >= lo:
                    ctx.violation("C07/gain_p/predict/oversized-cluster", "batch of %d: sizes %r (allowed %d..%d)" % (
                        b, cnt.tolist(), lo, hi), cfg=cfg)
                else:
                    kind = "undersized" if cnt.min() < lo else "oversized"
                    ctx.violation(K + "predict/%s-cluster" % kind, "batch of %d: sizes %r (allowed %d..%d)" % (
                        b, cnt.tolist(), lo, hi), cfg=cfg)
        if k >= 2 and n > k:
            ctx.nontriv(cfg)
        ctx.extra["max_passes"] = st["max_passes"]
        ctx.sample({"cfg": cfg, "sizes": numpy.bincount(lab, minlength=k), "n_iter": m.n_iter_,
                    "association_passes_max": st["max_passes"]})
    finally:
        for name, f in reals.items():
            setattr(mod, name, f)


def summarize(extras, counters):
    return {"max_association_passes_observed": max([e.get("max_passes", 0) for e in extras] or [0])}


def evaluations(counters, ncases):
    return int(counters.get("fit.distance", 0) + counters.get("fit.gain", 0)
               + counters.get("predict.balanced.distance", 0) + counters.get("predict.balanced.gain", 0))
