"""C11 - ExtendedFeatures generates exactly scikit-learn's polynomial features.

Monitor 1 (symbolic shadow state): _transform_iall/_transform_ionly are wrapped at the module
attribute ExtendedFeatures looks them up through; the multiply(A, B, C) callback they receive is
replaced by a recorder that maps the three views back to column ranges.  A shadow exponent matrix
follows the real computation (block copy => unit vectors, multiply => E[p:q] = E[a:b] + e_i) and
must equal PolynomialFeatures.powers_ row for row.  That is data independent: one monitored run
decides a configuration for every X.
Monitor 2: numeric comparison with PolynomialFeatures on hostile inputs, for both kinds.
Monitor 3: get_feature_names_out parsed back into exponent vectors; n_output_features_.
"""
import itertools

import numpy

PROPERTY = "C11"
LEVEL = "exploration"
NEED_EXT = True
REQUIRED = ["shadow.exponents", "numeric.poly", "numeric.poly-slow", "names", "n_output_features",
            "history.steps", "history.kind_switched_without_refit"]
EXHAUSTIVE = {"quick": True, "thorough": True}
RULE = ("all (n_features, degree, interaction_only, include_bias) in the tier's box (quick 1-6 x 1-5, thorough "
        "1-8 x 1-6), both kinds, 8 input classes each, plus histories of set_params/refit/transform on one "
        "instance; non-trivial = degree >= 2 and n_features >= 2; "
        "distinct = distinct configuration")
ASSUMPTIONS = ["dense ndarray input (the transformer reads X.dtype/X.shape)",
               "float comparison rtol 1e-12 (float32: 1e-5): products are associated in a different order",
               "distinct input feature names without spaces"]


def cases(tier, seed):
    nf = range(1, 7) if tier == "quick" else range(1, 9)
    dg = range(1, 6) if tier == "quick" else range(1, 7)
    out = []
    for n, d, io, bias in itertools.product(nf, dg, (False, True), (False, True)):
        out.append({"gen": "cfg", "id": "n%d-d%d-io%d-b%d" % (n, d, io, bias), "n": n, "d": d,
                    "io": io, "bias": bias, "seed": seed})
    # degree 0 with the bias column (the constant model: PolynomialFeatures accepts it, one column of ones)
    for n, io in itertools.product((1, 3, 5), (False, True)):
        out.append({"gen": "cfg", "id": "n%d-d0-io%d-b1" % (n, io), "n": n, "d": 0, "io": io, "bias": True, "seed": seed})
    for n, d, io, bias in ((11, 2, False, True), (12, 2, True, False), (13, 2, False, False), (11, 3, True, True)):
        out.append({"gen": "cfg", "id": "wide-n%d-d%d-io%d-b%d" % (n, d, io, bias), "n": n, "d": d, "io": io,
                    "bias": bias, "seed": seed})
    for k in range(48 if tier == "quick" else 600):
        out.append({"gen": "history", "id": "history-%d" % k, "sub": seed * 100003 + k,
                    "max_n": max(nf), "max_d": max(dg)})
    return out


def col_of(view, base):
    """Column offset of a 2-D view into `base` (same memory), or None."""
    if not numpy.shares_memory(view, base) and view.size:
        return None
    off = view.__array_interface__["data"][0] - base.__array_interface__["data"][0]
    st = base.strides[1]
    if st == 0 or off % st:
        return None
    return off // st


class Shadow:
    def __init__(self, ctx, cfg):
        self.ctx = ctx
        self.cfg = cfg
        self.log = []
        self.XP = None
        self.X = None

    def wrap(self, real):
        def wrapped(degree, bias, XP, X, multiply, final):
            self.XP, self.X = XP, X

            def rec_multiply(A, B, C):
                a, i, p = col_of(A, XP), col_of(B, X), col_of(C, XP)
                self.log.append((a, A.shape[1], i, B.shape[1], p, C.shape[1]))
                return multiply(A, B, C)

            return real(degree, bias, XP, X, rec_multiply, final)
        return wrapped

    def exponents(self, n_features, bias):
        """Replay the log on the shadow exponent matrix; returns E or None after reporting."""
        ctx, cfg = self.ctx, self.cfg
        K = "C11/shadow/"
        XP, X = self.XP, self.X
        n_out = XP.shape[1]
        E = numpy.full((n_out, n_features), -1, dtype=int)
        written = numpy.zeros(n_out, dtype=bool)
        # initial block: identified numerically on generic data
        pos = 0
        if bias:
            if n_out < 1 or not (XP[:, 0] == 1).all():
                ctx.violation(K + "bias-column", "first column is not the constant 1", cfg=cfg)
                return None
            E[0] = 0
            written[0] = True
            pos = 1
        if n_out == pos and self.cfg.get("degree") == 0:
            return E        # degree 0: the constant column is the whole table
        if n_out < pos + n_features or not numpy.array_equal(XP[:, pos:pos + n_features], X):
            ctx.violation(K + "degree-1-block", "the degree-1 block is not a copy of X", cfg=cfg)
            return None
        for j in range(n_features):
            E[pos + j] = 0
            E[pos + j, j] = 1
            written[pos + j] = True
        for (a, la, i, lb, p, lc) in self.log:
            if a is None or i is None or p is None or lb != 1:
                ctx.violation(K + "foreign-buffer", "multiply called on arrays that are not views of XP / X",
                              cfg=cfg, call=(a, la, i, lb, p, lc))
                return None
            if la != lc:
                ctx.violation(K + "shape-mismatch", "multiply source and destination widths differ",
                              cfg=cfg, call=(a, la, i, lb, p, lc))
                return None
            if la == 0:
                continue
            if p < 0 or p + lc > n_out or a < 0 or a + la > n_out or not (0 <= i < n_features):
                ctx.violation(K + "out-of-range", "multiply addresses columns outside the output",
                              cfg=cfg, call=(a, la, i, lb, p, lc), n_out=n_out)
                return None
            if written[p:p + lc].any():
                ctx.violation(K + "overwrite", "a column is written twice", cfg=cfg, call=(a, la, i, p, lc))
                return None
            if not written[a:a + la].all():
                ctx.violation(K + "read-before-write", "multiply reads a column not yet computed",
                              cfg=cfg, call=(a, la, i, p, lc))
                return None
            if a + la > p and a < p + lc:
                ctx.violation(K + "overlap", "source and destination ranges overlap", cfg=cfg)
                return None
            E[p:p + lc] = E[a:a + la]
            E[p:p + lc, i] += 1
            written[p:p + lc] = True
        if not written.all():
            ctx.violation(K + "unwritten-column", "%d output columns are never written (numpy.empty garbage)" % (
                int((~written).sum())), cfg=cfg, columns=numpy.where(~written)[0][:10])
            return None
        return E


def parse_names(names, input_names):
    idx = {n: i for i, n in enumerate(input_names)}
    E = numpy.zeros((len(names), len(input_names)), dtype=int)
    for r, name in enumerate(names):
        if name == "1":
            continue
        for tok in name.split():
            base, _, power = tok.partition("^")
            if base not in idx:
                return None
            E[r, idx[base]] += int(power) if power else 1
    return E


def inputs(rng, n):
    rows = 7
    g = rng.randn(rows, n)
    z = rng.randn(rows, n)
    z[rng.rand(rows, n) < 0.3] = 0.0
    out = {
        "gauss": g,
        "zeros-negatives": z,
        "integers": rng.randint(-3, 4, size=(rows, n)).astype(numpy.int64),
        "float32": rng.randn(rows, n).astype(numpy.float32),
        "one-row": rng.randn(1, n),
        "fortran": numpy.asfortranarray(rng.randn(rows, n)),
        "large": rng.randn(rows, n) * 1e3,
    }
    ro = rng.randn(rows, n)
    ro.setflags(write=False)
    out["read-only"] = ro
    zc = rng.randn(rows, n)
    zc[:, int(rng.randint(n))] = 0.0            # a one-hot level never seen: a column made of zeros only
    out["zero-column"] = zc
    zc2 = rng.randn(rows, n)
    zc2[:, 0] = 0.0
    out["first-column-zero"] = zc2
    if n <= 3:
        # row counts around the sizes at which an implementation would start working in blocks
        for big in (4097, 5000):
            out["rows-%d" % big] = rng.randn(big, n)
    return out


def run_history(case, ctx):
    """One instance reused: set_params / fit on another width / transform twice / names, each step
    compared with a fresh PolynomialFeatures (a refit must not remember the previous configuration)."""
    from sklearn.preprocessing import PolynomialFeatures
    from mlinsights.mlmodel import ExtendedFeatures
    rng = numpy.random.RandomState(case["sub"] % (2 ** 31))
    kind = ["poly", "poly-slow"][case["sub"] % 2]
    m = ExtendedFeatures(kind=kind)
    hist = []
    for step in range(int(rng.randint(3, 7))):
        n = int(rng.randint(1, case["max_n"] + 1))
        d = int(rng.randint(1, min(case["max_d"], 4) + 1))
        io, bias = bool(rng.rand() < 0.5), bool(rng.rand() < 0.5)
        if rng.rand() < 0.8:
            if rng.rand() < 0.3:    # the same values as NumPy scalars (a numpy parameter grid)
                r = m.set_params(poly_degree=numpy.int64(d), poly_interaction_only=numpy.bool_(io),
                                 poly_include_bias=numpy.bool_(bias))
                hist_np = True
            else:
                r = m.set_params(poly_degree=d, poly_interaction_only=io, poly_include_bias=bias)
            if rng.rand() < 0.2:
                kind = "poly" if kind == "poly-slow" else "poly-slow"
                m.set_params(kind=kind)
        else:
            d, io, bias = m.poly_degree, m.poly_interaction_only, m.poly_include_bias
        dt_fit, dt_tr = [("float64", "float64"), ("int64", "float64"), ("float32", "float64"),
                         ("float64", "float32"), ("int64", "int64")][rng.randint(5)]
        X = (rng.randn(5, n) * 3).astype(dt_fit)
        X2 = (rng.randn(3, n) * 3).astype(dt_tr)
        hist.append({"n_features": n, "degree": d, "interaction_only": io, "include_bias": bias, "kind": kind,
                     "fit_dtype": dt_fit, "transform_dtype": dt_tr})
        cfg = {"history": list(hist), "sub": case["sub"]}
        ref = PolynomialFeatures(degree=d, interaction_only=io, include_bias=bias).fit(X)
        # some steps are fitted on a DataFrame with named columns (the next step, of another width, on whatever comes)
        as_frame = bool(rng.rand() < 0.3)
        hist[-1]["fitted_on"] = "DataFrame" if as_frame else "ndarray"
        try:
            if as_frame:
                import pandas
                m.fit(pandas.DataFrame(X, columns=["col%d" % j for j in range(n)]))
            else:
                m.fit(X)
            if rng.rand() < 0.4:
                # calls that must be refused (wrong width, NaN-free object data, wrong names), then business as usual
                for badcall in (lambda: m.transform(numpy.ones((2, n + 1))),
                                lambda: m.get_feature_names_out(["w%d" % i for i in range(n + 2)]),
                                lambda: m.transform(numpy.ones((0, n)))):
                    try:
                        badcall()
                    except Exception:
                        ctx.hit("history.refused_calls")
                hist[-1]["refused_calls_before_transform"] = True
            if rng.rand() < 0.4:
                # the FIRST transform after the fit is aborted half-way (floating-point errors turned into exceptions by
                # the caller, monomials of 1e200 overflow); the next ones are ordinary
                try:
                    with numpy.errstate(over="raise", invalid="raise"):
                        m.transform(numpy.full((2, n), 1e200))
                except Exception:
                    ctx.hit("history.first_transform_aborted")
                hist[-1]["first_transform_aborted"] = True
            outs = [m.transform(X), m.transform(X2), m.transform(X)]
            names = list(m.get_feature_names_out())
        except Exception as e:
            ctx.violation("C11/history/raised/%s" % type(e).__name__, "%s: %s after a refit" % (
                type(e).__name__, e), cfg=cfg)
            return
        ctx.hit("history.steps")
        exps = [ref.transform(X.astype(float)), ref.transform(X2.astype(float)), ref.transform(X.astype(float))]
        for k, (g, e) in enumerate(zip(outs, exps)):
            f32 = (X2 if k == 1 else X).dtype == numpy.float32
            if g.shape != e.shape or not numpy.allclose(g, e, rtol=1e-4 if f32 else 1e-12, atol=1e-15):
                ctx.violation("C11/history/values-differ", "transform #%d after step %d differs from "
                              "PolynomialFeatures (shape %r vs %r)" % (k, step, g.shape, e.shape), cfg=cfg)
                break
        if m.n_output_features_ != ref.powers_.shape[0]:
            ctx.violation("C11/history/n_output_features", "n_output_features_=%r, expected %d" % (
                m.n_output_features_, ref.powers_.shape[0]), cfg=cfg)
        E = parse_names(names, ["x%d" % i for i in range(n)])
        if len(names) != ref.powers_.shape[0] or E is None or not numpy.array_equal(E, ref.powers_):
            ctx.violation("C11/history/names", "feature names after step %d do not name the monomials" % step,
                          cfg=cfg, names=names[:6])
        # the other algorithm is selected WITHOUT a refit (kind only chooses how the fitted table is computed): the same
        # monomials, the same names; then back
        other = "poly" if kind == "poly-slow" else "poly-slow"
        try:
            m.set_params(kind=other)
            go, no_, nn = m.transform(X2), m.n_output_features_, list(m.get_feature_names_out())
            m.set_params(kind=kind)
            gb = m.transform(X2)
        except Exception as e:
            ctx.violation("C11/history/kind-switched-without-refit/raised/%s" % type(e).__name__,
                          "set_params(kind=%r) after a fit with kind=%r, then transform: %s" % (other, kind, str(e)[:120]),
                          cfg=cfg)
            return
        ctx.hit("history.kind_switched_without_refit")
        f32 = X2.dtype == numpy.float32
        for g_ in (go, gb):
            if g_.shape != exps[1].shape or not numpy.allclose(g_, exps[1], rtol=1e-4 if f32 else 1e-12, atol=1e-15):
                ctx.violation("C11/history/kind-switched-without-refit/values-differ", "after set_params(kind=%r) on an "
                              "instance fitted with kind=%r (step %d) transform differs from PolynomialFeatures "
                              "(shape %r vs %r)" % (other, kind, step, g_.shape, exps[1].shape), cfg=cfg)
                break
        if no_ != ref.powers_.shape[0] or nn != names:
            ctx.violation("C11/history/kind-switched-without-refit/names", "n_output_features_ / names change with kind",
                          cfg=cfg)
        # results of single-row calls are kept by the caller while further rows are asked
        if len(X2) >= 2:
            ra = m.transform(X2[:1])
            ka = numpy.array(ra, copy=True)
            rb = m.transform(X2[1:2])
            ctx.hit("history.earlier_result_kept")
            if not numpy.array_equal(ra, ka) or numpy.shares_memory(numpy.asarray(ra), numpy.asarray(rb)):
                ctx.violation("C11/history/earlier-result-overwritten", "the result of transform on one row changed "
                              "when the next row was transformed", cfg=cfg)
        # the same array object refilled in place between two calls
        buf = X2.astype(float)
        m.transform(buf)
        buf[:] = buf[::-1] * 0.5 + 1
        ctx.hit("history.buffer_refilled_in_place")
        g, e = m.transform(buf), ref.transform(buf)
        if g.shape != e.shape or not numpy.allclose(g, e, rtol=1e-12, atol=1e-15):
            ctx.violation("C11/history/values-differ/buffer-refilled-in-place", "transform of an array refilled in place "
                          "returns the monomials of its previous content", cfg=cfg)
        # a fit refused because of a hyper-parameter (an unknown kind, a degree given as a float) together with another
        # degree; the parameter is repaired and the instance fitted again: the table is the one of the repaired
        # configuration, not of the fit before the refusal
        if rng.rand() < 0.5:
            d3 = d % 3 + 1
            badp = [{"kind": "poly_slow", "poly_degree": d3}, {"poly_degree": float(d3)}][int(rng.randint(2))]
            good = {"kind": kind, "poly_degree": d3}
            try:
                m.set_params(**badp)
                try:
                    m.fit(X)
                    refused_p = False
                except Exception:
                    refused_p = True
                m.set_params(**good)
                if refused_p:
                    m.fit(X)
                    ctx.hit("history.fit_refused_by_a_parameter_then_repaired")
                    ref3 = PolynomialFeatures(degree=d3, interaction_only=io, include_bias=bias).fit(X)
                    g3, e3 = m.transform(X2), ref3.transform(X2.astype(float))
                    if g3.shape != e3.shape or m.n_output_features_ != e3.shape[1] or not numpy.allclose(
                            g3, e3, rtol=1e-4 if X2.dtype == numpy.float32 else 1e-12, atol=1e-15):
                        ctx.violation("C11/history/values-differ/after-repaired-parameter", "a fit refused because of %s, "
                                      "the parameter repaired, a new fit: transform has shape %r (n_output_features_=%r), "
                                      "PolynomialFeatures %r" % (sorted(badp), g3.shape, getattr(
                                          m, "n_output_features_", None), e3.shape), cfg=cfg)
                m.set_params(poly_degree=d)
                m.fit(X)
            except Exception as e:
                ctx.violation("C11/history/raised/%s/after-repaired-parameter" % type(e).__name__, str(e)[:150], cfg=cfg)
                return
        # a fit that validation refuses (NaN) on a matrix of another width, then the instance is used again:
        # whatever transform returns is the monomials of what it was given
        if rng.rand() < 0.5:
            nw = n + int(rng.randint(1, 3)) if rng.rand() < 0.5 or n == 1 else n - 1
            Xw = rng.randn(4, nw) * 2
            Xbad = Xw.copy()
            Xbad[0, 0] = numpy.nan
            pbefore = repr(sorted(m.get_params().items()))
            try:
                m.fit(Xbad)
                refused = False
            except Exception:
                refused = True
            if refused:
                ctx.hit("history.refused_fit")
                if repr(sorted(m.get_params().items())) != pbefore:
                    ctx.violation("C11/history/params-changed-by-refused-fit", "a fit refused by validation changed the "
                                  "hyper-parameters: %s -> %s" % (pbefore[:120], repr(sorted(m.get_params().items()))[:120]),
                                  cfg=cfg)
                for Z in (X.astype(float), Xw):
                    try:
                        g = m.transform(Z)
                        nout = m.n_output_features_
                    except Exception:
                        continue
                    e = PolynomialFeatures(degree=d, interaction_only=io, include_bias=bias).fit_transform(Z)
                    if g.shape != e.shape or not numpy.allclose(g, e, rtol=1e-12, atol=1e-15) or nout != e.shape[1]:
                        ctx.violation("C11/history/values-differ/after-refused-fit", "after a fit refused by validation "
                                      "(width %d, previous width %d) transform of a width-%d matrix returns shape %r "
                                      "(n_output_features_=%r), PolynomialFeatures gives %r" % (
                                          nw, n, Z.shape[1], g.shape, nout, e.shape), cfg=cfg)
                        break
    if len(hist) >= 3 and len({h["n_features"] for h in hist}) >= 2:
        ctx.nontriv("history", hist)
    ctx.cls("history")


def run_case(case, ctx):
    if case["gen"] == "history":
        return run_history(case, ctx)
    from sklearn.preprocessing import PolynomialFeatures
    import mlinsights.mlmodel.extended_features as ef
    from mlinsights.mlmodel import ExtendedFeatures
    from vrt.poison import Poison, tainted
    n, d, io, bias = case["n"], case["d"], case["io"], case["bias"]
    cfg = {"n_features": n, "degree": d, "interaction_only": io, "include_bias": bias}
    rng = numpy.random.RandomState(1000 * n + 10 * d + 2 * io + bias + 7919 * case.get("seed", 0))
    ref = PolynomialFeatures(degree=d, interaction_only=io, include_bias=bias)
    Xg = rng.randn(6, n) + 0.5
    ref.fit(Xg)
    P = ref.powers_
    if d >= 2 and n >= 2:
        ctx.nontriv(cfg)
    ctx.cls("interaction_only" if io else "all-monomials")

    # ---- monitor 1: shadow exponent matrix on the real recurrence
    sh = Shadow(ctx, cfg)
    real_all, real_only = ef._transform_iall, ef._transform_ionly
    ef._transform_iall, ef._transform_ionly = sh.wrap(real_all), sh.wrap(real_only)
    try:
        m = ExtendedFeatures(kind="poly", poly_degree=d, poly_interaction_only=io, poly_include_bias=bias)
        try:
            out = m.fit(Xg).transform(Xg)
        except Exception as e:
            ctx.violation("C11/poly/raised/%s" % type(e).__name__, "%s: %s" % (type(e).__name__, e), cfg=cfg)
            out = None
    finally:
        ef._transform_iall, ef._transform_ionly = real_all, real_only
    if out is not None:
        ctx.hit("shadow.exponents")
        if sh.XP is None:
            ctx.violation("C11/shadow/recurrence-not-called", "transform did not go through the block recurrence",
                          cfg=cfg)
        elif sh.XP.shape[1] != P.shape[0]:
            ctx.violation("C11/shadow/column-count", "output has %d columns, PolynomialFeatures %d" % (
                sh.XP.shape[1], P.shape[0]), cfg=cfg)
        else:
            E = sh.exponents(n, bias)
            if E is not None and not numpy.array_equal(E, P):
                bad = numpy.where((E != P).any(axis=1))[0]
                ctx.violation("C11/shadow/exponents-differ",
                              "column %d holds monomial %s, PolynomialFeatures has %s" % (
                                  bad[0], E[bad[0]].tolist(), P[bad[0]].tolist()), cfg=cfg, n_bad=len(bad))
            ctx.extra["multiply_calls"] = len(sh.log)
        if out is not sh.XP and sh.XP is not None and not numpy.array_equal(out, sh.XP):
            ctx.violation("C11/shadow/result-not-buffer", "transform returned something else than the buffer "
                          "the recurrence filled", cfg=cfg)

    # ---- monitor 2: numbers, both kinds, hostile inputs
    for kind in ("poly", "poly-slow"):
        for cname, X in inputs(rng, n).items():
            m = ExtendedFeatures(kind=kind, poly_degree=d, poly_interaction_only=io, poly_include_bias=bias)
            keep = X.copy()
            try:
                # under the poisoned allocator: every cell of the result must have been written
                with Poison(["mlinsights.mlmodel.extended_features",
                             "mlinsights.mlmodel._extended_features_polynomial"]) as pz:
                    got = m.fit(X).transform(X)
                ctx.extra["poisoned_buffers"] = ctx.extra.get("poisoned_buffers", 0) + pz.allocations
            except Exception as e:
                ctx.violation("C11/%s/raised/%s" % (kind, type(e).__name__),
                              "%s: %s on input class %s" % (type(e).__name__, e, cname), cfg=cfg)
                continue
            ctx.hit("numeric." + kind)
            if tainted(got):
                ctx.violation("C11/%s/reads-uninitialised-memory" % kind, "the result still holds the sentinel the "
                              "poisoned numpy.empty put there: %d cells were never written (input class %s)" % (
                                  int((numpy.abs(numpy.asarray(got, dtype=float)) >= 1e70).sum()), cname), cfg=cfg)
                continue
            ctx.cls("input=" + cname)
            exp = PolynomialFeatures(degree=d, interaction_only=io, include_bias=bias).fit_transform(
                X.astype(numpy.float64))
            if got.shape != exp.shape:
                ctx.violation("C11/%s/shape" % kind, "shape %r vs %r" % (got.shape, exp.shape), cfg=cfg,
                              input=cname)
                continue
            rtol = 1e-5 if X.dtype == numpy.float32 else 1e-12
            if not numpy.allclose(got.astype(numpy.float64), exp, rtol=rtol, atol=rtol * 1e-3):
                j = int(numpy.argmax(numpy.abs(got - exp).max(axis=0)))
                ctx.violation("C11/%s/values-differ" % kind,
                              "column %d differs from PolynomialFeatures (monomial %s)" % (j, P[j].tolist()),
                              cfg=cfg, input=cname, got=got[:2, j], expected=exp[:2, j])
            if not numpy.array_equal(X, keep):
                ctx.violation("C11/%s/input-modified" % kind, "transform wrote into X", cfg=cfg, input=cname)
            ctx.hit("n_output_features")
            if m.n_output_features_ != exp.shape[1]:
                ctx.violation("C11/n_output_features", "n_output_features_=%r, columns=%d" % (
                    m.n_output_features_, exp.shape[1]), cfg=cfg, kind=kind)
        # ---- monitor 3: names
        pad = ["v%d" % i for i in range(20)]
        for names in (None, (["a", "bb", "c1", "d", "zz", "f", "g9", "h"] + pad)[:n],
                      ["x%d" % (i + 9) for i in range(n)],
                      (["a", "ab", "abc", "b", "ba", "len", "length", "x"] + pad)[:n]):   # names that are substrings
            m = ExtendedFeatures(kind=kind, poly_degree=d, poly_interaction_only=io, poly_include_bias=bias)
            m.fit(Xg)
            try:
                got = list(m.get_feature_names_out(names))
            except Exception as e:
                ctx.violation("C11/names/raised/%s" % type(e).__name__, "%s: %s" % (type(e).__name__, e),
                              cfg=cfg, names=names)
                continue
            ctx.hit("names")
            base = names or ["x%d" % i for i in range(n)]
            E = parse_names(got, base)
            if len(got) != P.shape[0]:
                ctx.violation("C11/names/count", "%d names for %d columns" % (len(got), P.shape[0]), cfg=cfg)
            elif E is None or not numpy.array_equal(E, P):
                bad = 0 if E is None else int(numpy.where((E != P).any(axis=1))[0][0])
                ctx.violation("C11/names/wrong-monomial", "name %r for column %d whose monomial is %s" % (
                    got[bad], bad, P[bad].tolist()), cfg=cfg, names=names)
    ctx.sample({"cfg": cfg, "multiply_calls": [list(x) for x in sh.log[:4]], "n_columns": int(P.shape[0])})


def evaluations(counters, ncases):
    return int(counters.get("shadow.exponents", 0) + counters.get("numeric.poly", 0)
               + counters.get("numeric.poly-slow", 0) + counters.get("names", 0))
