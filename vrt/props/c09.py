"""C09 - PiecewiseTreeRegressor: per-leaf least squares; the compiled criteria compute the true MSE.

Criterion level: the accessors exported by the compiled module (_test_criterion_*) are driven over every
(start, pos, end) triple of small node ranges (exhaustive) and sampled triples of larger ones, for target
vectors, weights and sample orders from hostile classes, each evaluation happening on a criterion object
whose buffers were left dirty by a previous, unrelated init.  Oracles: NumPy weighted mean / MSE and
numpy.linalg.lstsq.  Estimator level: predict vs per-leaf lstsq / weighted leaf mean from Tree.apply.
The same workloads run against the ASan+UBSan build (flavour 'asan'); a report with an mlinsights frame
is a violation.
"""
import itertools
import sys

import numpy

PROPERTY = "C09"
LEVEL = "exploration"
NEED_EXT = True
REQUIRED = ["crit.simple.triples", "crit.fast.triples", "crit.linear.triples", "crit.simple_vs_fast",
            "tree.mselin", "tree.simple", "tree.structure", "dgelss", "asan.crit", "asan.tree", "leaf.least_squares"]
EXHAUSTIVE = {"quick": False, "thorough": False}
RULE = ("criteria: every triple start<=pos<=end, start<end of ranges with n<=12 (thorough n<=24) is enumerated, "
        "n up to 200 sampled; target classes gauss / constant / offset 1e6 / duplicates / integers, weights unit / "
        "random / with zeros, orders identity / permutation, a dirty previous init before every range; trees: "
        "n in {1,2,3,5,17,60,300}, d 1-5, max_depth, min_samples_leaf, weights, ill-conditioned features (offset "
        "2000); non-trivial = range with >= 3 rows and a non-constant target; distinct = distinct (class, n, seed)")
ASSUMPTIONS = ["unit weights for the linear clauses (the property's domain); linear impurity judged only when the "
               "range has more rows than coefficients",
               "floating tolerance: rtol 1e-7 + atol 1e-9*(1+max|y|^2) (the fast criterion uses E[y^2]-E[y]^2; for "
               "the 1e6-offset class its absolute tolerance is scaled by max|y|^2 * 1e-10)",
               "impurity_improvement is evaluated after proxy_impurity_improvement, as the splitter does"]
CASE_TIMEOUT = 600

TARGETS = ["gauss", "constant", "offset", "duplicates", "integers", "tiny", "huge"]


def cases(tier, seed):
    out = []
    small = range(1, 13) if tier == "quick" else range(1, 25)
    for n in small:
        out.append({"gen": "crit", "id": "crit-n%d" % n, "n": n, "exhaustive": True, "sub": seed * 1009 + n})
    for k, n in enumerate([30, 60, 120, 200] if tier == "quick" else [30, 45, 60, 90, 120, 160, 200, 200]):
        out.append({"gen": "crit", "id": "crit-big%d-%d" % (n, k), "n": n, "exhaustive": False,
                    "sub": seed * 1009 + 500 + k})
    for n in (1, 2, 5, 9):
        out.append({"gen": "crit", "id": "crit-asan-n%d" % n, "n": n, "exhaustive": True, "sub": seed * 1009 + 900 + n,
                    "flavour": "asan"})
    nt = 96 if tier == "quick" else 1000
    for k in range(nt):
        out.append({"gen": "tree", "id": "tree-%d" % k, "sub": seed * 100003 + k})
    for k in range(8 if tier == "quick" else 40):
        out.append({"gen": "tree", "id": "tree-asan-%d" % k, "sub": seed * 100003 + 7000 + k, "flavour": "asan"})
    for k in range(16 if tier == "quick" else 160):
        out.append({"gen": "underdet", "id": "underdet-%d" % k, "sub": seed * 100003 + k, "fits": 300})
    for k in range(16 if tier == "quick" else 160):
        out.append({"gen": "dgelss", "id": "dgelss-%d" % k, "sub": seed * 100003 + k})
    for k in range(4):
        out.append({"gen": "dgelss", "id": "dgelss-asan-%d" % k, "sub": seed * 100003 + 7000 + k, "flavour": "asan"})
    if tier == "thorough":
        out.append({"gen": "memcheck", "id": "memcheck"})
    return out


def target(rng, kind, n):
    if kind == "gauss":
        return rng.randn(n)
    if kind == "constant":
        return numpy.full(n, 2.5)
    if kind == "offset":
        return 1e6 + rng.randn(n)
    if kind == "tiny":
        return rng.randn(n) * 10.0 ** (-int(rng.randint(5, 9)))
    if kind == "huge":
        return rng.randn(n) * 10.0 ** int(rng.randint(4, 8))
    if kind == "duplicates":
        return rng.choice([0.5, 1.5, -2.0], size=n)
    return rng.randint(-3, 4, size=n).astype(float)


def wmean_mse(y, w):
    sw = w.sum()
    if len(y) == 0 or sw == 0:
        return 0.0, 0.0
    m = float((y * w).sum() / sw)
    return m, float((w * (y - m) ** 2).sum() / sw)


def lin_mse(X, y, nbvar):
    if len(y) <= nbvar:
        return None
    A = numpy.hstack([X, numpy.ones((len(y), 1))])
    beta = numpy.linalg.lstsq(A, y, rcond=None)[0]
    r = A @ beta - y
    return float((r ** 2).mean())


def close(a, b, scale):
    return abs(a - b) <= 1e-7 * max(abs(a), abs(b)) + scale


def run_crit(case, ctx):
    from mlinsights.mlmodel import _piecewise_tree_regression_common as cm
    from mlinsights.mlmodel.piecewise_tree_regression_criterion import SimpleRegressorCriterion
    from mlinsights.mlmodel.piecewise_tree_regression_criterion_fast import SimpleRegressorCriterionFast
    from mlinsights.mlmodel.piecewise_tree_regression_criterion_linear import LinearRegressorCriterion
    n = case["n"]
    asan = case.get("flavour") == "asan"
    rng = numpy.random.RandomState(case["sub"] % (2 ** 31))
    for tkind, wkind, okind in itertools.product(TARGETS, ("unit", "random", "zeros"), ("identity", "permutation")):
        y = target(rng, tkind, n)
        ys = numpy.ascontiguousarray(y.reshape(-1, 1))
        if wkind == "unit":
            w = numpy.ones(n)
        else:
            w = rng.rand(n) + 0.1
            if wkind == "zeros" and n > 1:
                w[rng.rand(n) < 0.3] = 0.0
        order = numpy.arange(n, dtype=numpy.intp) if okind == "identity" else rng.permutation(n).astype(numpy.intp)
        d = int(rng.randint(1, 4))
        X = numpy.ascontiguousarray(rng.randn(n, d) if tkind != "offset" else 2000 + rng.rand(n, d) * 12)
        # rank-deficient designs with more rows than coefficients (a binary feature that is constant below a
        # split on it, a duplicated column, a constant column): the least-squares residual is still well defined
        xk = ["full-rank", "full-rank", "binary-column", "duplicated-column", "constant-column"][
            (case["sub"] + len(tkind) + len(wkind) + len(okind)) % 5]
        if tkind != "offset" and xk != "full-rank":
            if xk == "binary-column":
                X[:, 0] = (rng.rand(n) < 0.5).astype(float)
                X[: n // 2, 0] = 1.0
            elif xk == "duplicated-column" and d > 1:
                X[:, -1] = X[:, 0]
            elif xk == "constant-column":
                X[:, -1] = 3.0
            else:
                xk = "full-rank"
        else:
            xk = "full-rank"
        ctx.cls("design=" + xk)
        # the weight vector and the sample order as the caller may hold them: contiguous, every other cell of a longer
        # buffer, a column of a table (the compiled signatures take strided 1-D views)
        wlay = ["contiguous", "every-other-cell", "column-of-a-table"][(case["sub"] + len(tkind) + 2 * len(okind) + len(wkind)) % 3]
        if wlay == "every-other-cell":
            bw, bo = numpy.full(2 * n, 777.0), numpy.full(2 * n, 0, dtype=numpy.intp)
            bw[::2], bo[::2] = w, order
            w, order = bw[::2], bo[::2]
        elif wlay == "column-of-a-table":
            tw, to = numpy.full((n, 3), -5.0), numpy.zeros((n, 2), dtype=numpy.intp)
            tw[:, 1], to[:, 0] = w, order
            w, order = tw[:, 1], to[:, 0]
        ctx.cls("weights-layout=" + wlay)
        W = float(w.sum())
        ymax = float(numpy.abs(y).max())
        # slack relative to the magnitude of the targets (an absolute floor would hide everything on tiny ones)
        atol = 1e-9 * ((1 + ymax ** 2) if tkind not in ("tiny", "huge") else max(ymax ** 2, 1e-300)) * (
            100 if tkind == "offset" else 1)
        vtol = 1e-9 * (1.0 if tkind not in ("tiny", "huge") else max(ymax, 1e-300))
        cfg = {"n": n, "target": tkind, "weights": wkind, "order": okind, "d": d, "design": xk, "weights_layout": wlay}
        crits = {"simple": SimpleRegressorCriterion(1, n), "fast": SimpleRegressorCriterionFast(1, n)}
        # the linear criterion: impurities are specified for unit weights only, the node value (weighted mean) always
        crits["linear"] = LinearRegressorCriterion(1, X)
        lin_full = wkind == "unit"
        if case["exhaustive"]:
            ranges = [(s, e) for s in range(n) for e in range(s + 1, n + 1)]
        else:
            ranges = [(0, n), (0, 1), (n - 1, n)] + [tuple(sorted(rng.choice(n + 1, 2, replace=False))) for _ in
                                                      range(25)]
        ys_o, w_o = y[order], w[order]
        X_o = X[order]
        for (s, e) in ranges:
            s, e = int(s), int(e)
            if W == 0 or w_o[s:e].sum() == 0:
                ctx.excluded("zero-weight-range")
                continue
            res = {}
            positions = list(range(s, e + 1)) if (case["exhaustive"] or e - s <= 12) else sorted(
                {s, e, s + 1, e - 1} | set(int(v) for v in rng.randint(s, e + 1, 6)))
            for name, c in crits.items():
                K = "C09/criterion/%s/" % name
                # dirty the buffers with an unrelated earlier init
                s0 = int(rng.randint(0, n))
                e0 = int(rng.randint(s0 + 1, n + 1))
                if w_o[s0:e0].sum() > 0:
                    # ... with another sample order and other weights (none of them zero): whatever the object
                    # keeps per position must be rewritten by the init under test
                    order2 = rng.permutation(n).astype(numpy.intp)
                    w2 = rng.rand(n) + 0.5
                    if name == "linear":
                        # no weights at all (None) in the earlier life of the object, or unit weights
                        cm._test_criterion_init(c, ys, None if (s0 + e0) % 2 else numpy.ones(n), float(n), order2, s0, e0)
                    else:
                        cm._test_criterion_init(c, ys, w2, float(w2.sum()), order2, s0, e0)
                    cm._test_criterion_update(c, int(rng.randint(s0, e0 + 1)))
                try:
                    cm._test_criterion_init(c, ys, w, W, order, s, e)
                except Exception as ex:
                    ctx.violation(K + "init-raised/%s" % type(ex).__name__, str(ex)[:150], cfg=cfg, range=(s, e))
                    continue
                val = cm._test_criterion_node_value(c)
                imp = cm._test_criterion_node_impurity(c)
                m, mse = wmean_mse(ys_o[s:e], w_o[s:e])
                if not close(val, m, atol ** 0.5 * 1e-3 + vtol + 1e-9 * abs(m)):
                    ctx.violation(K + "node-value", "range [%d,%d): node value %r, weighted mean %r" % (s, e, val, m),
                                  cfg=cfg)
                if name == "linear" and not lin_full:
                    ctx.hit("crit.linear.node_value_weighted")
                    continue          # with weights only the node value is specified for this criterion
                if name == "linear":
                    exp_imp = lin_mse(X_o[s:e], ys_o[s:e], d + 1)
                else:
                    exp_imp = mse
                # the linear criterion works on residuals: a common offset of the targets does not cost it the digits the
                # sum-of-squares formula of the constant criteria loses, so it is held to a slack relative to the residuals
                catol = atol if not (name == "linear" and tkind == "offset") else 1e-4 * (1.0 + (exp_imp or 0.0))
                if exp_imp is not None and not close(imp, exp_imp, catol):
                    ctx.violation(K + "node-impurity%s" % ("/" + wkind if wkind != "unit" else ""),
                                  "range [%d,%d): impurity %r, expected %r" % (s, e, imp, exp_imp), cfg=cfg)
                per_pos = []
                # split positions in increasing order, or in decreasing order (what was computed at an interior position
                # is then still in the object when a boundary position is asked)
                backwards = (s + e) % 3 == 0
                for pos in (positions[::-1] if backwards else positions):
                    cm._test_criterion_update(c, pos)
                    ctx.hit("asan.crit" if asan else "crit.%s.triples" % name)
                    left, right = cm._test_criterion_node_impurity_children(c)
                    proxy = cm._test_criterion_proxy_impurity_improvement(c)
                    _, ml = wmean_mse(ys_o[s:pos], w_o[s:pos])
                    _, mr = wmean_mse(ys_o[pos:e], w_o[pos:e])
                    if name == "linear":
                        el = lin_mse(X_o[s:pos], ys_o[s:pos], d + 1)
                        er = lin_mse(X_o[pos:e], ys_o[pos:e], d + 1)
                    else:
                        el, er = ml, mr
                    for side, g, x in (("left", left, el), ("right", right, er)):
                        if x is not None and not close(g, x, atol if not (name == "linear" and tkind == "offset")
                                                       else 1e-4 * (1.0 + x)):
                            ctx.violation(K + "children-impurity/%s%s" % (side, "/" + wkind if wkind != "unit" else ""),
                                          "triple (%d,%d,%d): %s impurity %r, expected %r" % (s, pos, e, side, g, x),
                                          cfg=cfg)
                    wl, wr = float(w_o[s:pos].sum()), float(w_o[pos:e].sum())
                    if pos == s or pos == e:
                        if not numpy.isnan(proxy):
                            ctx.violation(K + "proxy-at-boundary", "triple (%d,%d,%d): proxy improvement %r, "
                                          "documented NaN at the boundary" % (s, pos, e, proxy), cfg=cfg)
                        # the improvement at a boundary: one child is the node itself, the other is empty
                        full_side = right if pos == s else left
                        if numpy.isfinite(left) and numpy.isfinite(right) and numpy.isfinite(full_side):
                            ii = cm._test_criterion_impurity_improvement(c, imp, left, right)
                            wn = wl + wr
                            expi = (wn / W) * (imp - full_side)
                            ctx.hit("crit.improvement_at_boundary")
                            if not close(ii, expi, atol):
                                ctx.violation(K + "impurity-improvement/at-boundary", "triple (%d,%d,%d), positions visited "
                                              "%s: improvement %r, documented formula %r" % (
                                                  s, pos, e, "backwards" if backwards else "forwards", ii, expi), cfg=cfg)
                    else:
                        expp = -wr * right - wl * left
                        if not close(proxy, expp, atol * max(1.0, W)):
                            ctx.violation(K + "proxy-improvement", "triple (%d,%d,%d): proxy %r, -wr*ir-wl*il = %r" % (
                                s, pos, e, proxy, expp), cfg=cfg)
                        ii = cm._test_criterion_impurity_improvement(c, imp, left, right)
                        wn = wl + wr
                        expi = (wn / W) * (imp - wr / wn * right - wl / wn * left)
                        if not close(ii, expi, atol):
                            ctx.violation(K + "impurity-improvement", "triple (%d,%d,%d): improvement %r, documented "
                                          "formula %r" % (s, pos, e, ii, expi), cfg=cfg)
                    per_pos.append((left, right))
                if backwards:
                    per_pos = per_pos[::-1]
                res[name] = (val, imp, per_pos)
            if "simple" in res and "fast" in res:
                ctx.hit("crit.simple_vs_fast")
                a, b = res["simple"], res["fast"]
                ok = close(a[0], b[0], atol ** 0.5 * 1e-3 + vtol) and close(a[1], b[1], atol) and all(
                    close(p[0], q[0], atol) and close(p[1], q[1], atol) for p, q in zip(a[2], b[2]))
                if not ok:
                    ctx.violation("C09/criterion/simple-vs-fast", "range [%d,%d): the two constant-fit criteria "
                                  "disagree" % (s, e), cfg=cfg)
                try:
                    cm.assert_criterion_equal(crits["simple"], crits["fast"])
                except ValueError as ex:
                    if tkind != "offset" and wkind == "unit":
                        ctx.violation("C09/criterion/simple-vs-fast/weights", str(ex)[:150], cfg=cfg, range=(s, e))
            if e - s >= 3 and tkind != "constant":
                ctx.nontriv("crit", cfg, s, e)
        ctx.cls("target=" + tkind)
    ctx.sample({"n": n, "exhaustive": case["exhaustive"]})


def run_tree(case, ctx):
    from mlinsights.mlmodel import PiecewiseTreeRegressor
    asan = case.get("flavour") == "asan"
    rng = numpy.random.RandomState(case["sub"] % (2 ** 31))
    n = int([1, 2, 3, 5, 17, 60, 300][rng.randint(7)]) if not asan else int([1, 2, 5, 17, 100, 1000][rng.randint(6)])
    d = int(rng.randint(1, 6))
    xkind = ["gauss", "offset2000", "duplicated-rows", "collinear", "dup-underdetermined", "epoch-seconds"][
        rng.randint(6)]
    if xkind == "dup-underdetermined":
        # a leaf with duplicated rows and fewer rows than coefficients: rank deficiency hidden by rounding
        n = int(rng.randint(3, 6))
        d = int(rng.randint(n, 6)) if n < 6 else 5
    X = rng.randn(n, d)
    if xkind == "dup-underdetermined":
        X[n // 2:] = X[: n - n // 2]
    if xkind == "offset2000":
        X[:, 0] = 2008 + rng.randint(0, 12, n)
    elif xkind == "epoch-seconds":
        X[:, 0] = 1.7e9 + rng.randint(0, 10 ** 6, n) + rng.rand(n)     # not representable in single precision
    elif xkind == "duplicated-rows" and n > 2:
        X[n // 2:] = X[: n - n // 2]
    elif xkind == "collinear" and d > 1:
        X[:, -1] = 2 * X[:, 0]
    # training features as counts (int64) or float32 sensors: the same numbers, another dtype
    tdtype = ["float64", "float64", "float64", "int64", "float32"][(case["sub"] // 2) % 5]
    if xkind == "offset2000" and tdtype == "float32":
        tdtype = "float64"
    if tdtype == "int64":
        X = numpy.round(X * 4)
    elif tdtype == "float32":
        X = X.astype(numpy.float32).astype(numpy.float64)
    y = numpy.where(X[:, 0] > numpy.median(X[:, 0]), 1.0, -1.0) * (1 + X[:, -1]) + rng.randn(n) * 0.1
    crit = ["mselin", "simple"][case["sub"] % 2]
    weighted = crit == "simple" and rng.rand() < 0.5
    w = rng.rand(n) + 0.1 if weighted else None
    params = dict(criterion=crit, max_depth=int(rng.randint(1, 6)), min_samples_leaf=int([1, 2, 5, 10][rng.randint(4)]),
                  random_state=0)
    msl_rows = params["min_samples_leaf"]
    if (case["sub"] // 5) % 4 == 1 and n >= 17:
        # the threshold as a fraction of the training set (scikit-learn: ceil(fraction * n_samples) rows per leaf)
        params["min_samples_leaf"] = float([0.05, 0.1, 0.2][rng.randint(3)])
        msl_rows = int(numpy.ceil(params["min_samples_leaf"] * n))
    if (case["sub"] // 3) % 3 == 0 and n >= 17:
        # best-first growth: node ids are no longer in preorder (a right branch may be expanded before a left one)
        params["max_leaf_nodes"] = int(rng.randint(3, 9))
        params["max_depth"] = 8
    cfg = dict(params, n=n, d=d, X=xkind, weighted=bool(weighted), sub=case["sub"])
    K = "C09/tree/%s/" % crit
    from vrt import layouts
    lay = layouts.pick(case["sub"], 3)
    via = (case["sub"] // 3) % 4 == 0
    cfg["layout"], cfg["configured_with"] = lay, "set_params" if via else "constructor"
    ctx.cls("layout=" + lay)
    Xfit, yfit = layouts.relayout(X if tdtype == "float64" else X.astype(tdtype), lay), layouts.relayout(y, lay)
    cfg["train_dtype"] = tdtype
    ctx.cls("train-dtype=" + tdtype)
    m = layouts.build(PiecewiseTreeRegressor, params, via, as_numpy_scalars=(case["sub"] // 7) % 3 == 0, decoys=
                      dict(criterion="simple" if crit == "mselin" else "mselin", max_depth=params["max_depth"] + 7,
                           min_samples_leaf=msl_rows + 3, random_state=5))
    if (case["sub"] // 2) % 3 == 0:
        # an earlier fit of the same object that the tree refuses (a table of the same shape in another dtype / layout,
        # holding an infinite value): nothing of that table takes part in the fit that follows
        Xbad = numpy.array(X, dtype=[numpy.float32, numpy.float64][case["sub"] % 2], order=["C", "F"][(case["sub"] // 4) % 2])
        Xbad = Xbad * 3.0 + 1.0
        Xbad[n // 2, 0] = numpy.inf
        try:
            m.fit(Xbad, yfit)
        except Exception:
            ctx.hit("tree.refused_fit_before")
            cfg["refused_fit_before"] = str(Xbad.dtype)
    try:
        r = m.fit(Xfit, yfit) if w is None else m.fit(Xfit, yfit, sample_weight=w)
        pred = m.predict(X)
    except Exception as e:
        ctx.hit("tree." + crit)
        ctx.violation(K + "raised/%s" % type(e).__name__, "fit/predict raised on valid data: %s" % str(e)[:200],
                      cfg=cfg)
        return
    ctx.hit("asan.tree" if asan else "tree." + crit)
    ctx.check(r is m and m.criterion == crit, K + "fit-contract", "fit must return self and keep the criterion name",
              cfg=cfg)
    leaf = m.apply(X)
    t = m.tree_
    ctx.hit("tree.structure")
    ctx.check(t.max_depth <= params["max_depth"], K + "depth-exceeds-max_depth", "depth %d > max_depth %d" % (
        t.max_depth, params["max_depth"]), cfg=cfg)
    cnt = numpy.bincount(leaf, minlength=t.node_count)
    leaves = numpy.where(t.children_left == -1)[0]
    if n >= 2 * msl_rows or len(leaves) > 1:
        small = [int(l) for l in leaves if cnt[l] < min(msl_rows, n)]
        ctx.check(not small, K + "leaf-smaller-than-min_samples_leaf", "leaves %r hold %r training rows, "
                  "min_samples_leaf=%r (%d rows)" % (small[:4], cnt[small][:4].tolist(), params["min_samples_leaf"],
                                                    msl_rows), cfg=cfg)
    Q = rng.randn(20, d)
    if xkind == "offset2000":
        Q[:, 0] = 2008 + rng.randint(0, 12, 20)
    if xkind == "epoch-seconds":
        Q[:, 0] = 1.7e9 + rng.randint(0, 10 ** 6, 20) + rng.rand(20)
    pq = m.predict(Q)
    lq = m.apply(Q)
    # the same rows given in other containers / dtypes are predicted alike (integer-valued rows as int64,
    # float32-representable rows as float32, Fortran order, read-only)
    Qi = numpy.round(Q * 3)
    Q32 = Q.astype(numpy.float32)
    ro = Q.copy()
    ro.setflags(write=False)
    import pandas
    for vname, Qa, Qb in (("int64", Qi.astype(numpy.int64), Qi), ("float32", Q32, Q32.astype(numpy.float64)),
                          ("fortran", numpy.asfortranarray(Q), Q), ("read-only", ro, Q),
                          ("DataFrame", pandas.DataFrame(Q), Q)) + (
                              (("list-of-rows", Q.tolist(), Q),) if crit == "simple" else ()):
        # ('mselin' reads X.shape: a plain list is refused loudly - an API limitation outside the property)
        try:
            pa, pb = m.predict(Qa), m.predict(Qb)
        except Exception as e:
            ctx.violation(K + "predict-raised/%s/%s" % (vname, type(e).__name__), str(e)[:150], cfg=cfg)
            continue
        ctx.hit("tree.query_containers")
        # (another memory order changes the order of the floating-point sums of the per-leaf dot products: with
        # features of 1e9 the last bits of a prediction of order 1 move by 1e-11)
        slack = 1e-9 * (1.0 + float(numpy.abs(pb).max()))
        if not numpy.allclose(pa, pb, rtol=1e-5 if vname == "float32" else 1e-9, atol=1e-6 if vname == "float32"
                              else slack):
            ctx.violation(K + "predict-depends-on-container/%s" % vname,
                          "predict on a %s batch differs from predict on the same values as float64 by %.3g" % (
                              vname, float(numpy.abs(pa - pb).max())), cfg=cfg)
    # a shallow copy of the fitted model is fitted on other targets (same rows, so usually the same number of leaves):
    # the model itself keeps its per-leaf regressions - fit binds new arrays, it does not refill shared ones
    if crit == "mselin" and n >= 5:
        import copy as _copy
        try:
            keepP = numpy.array(pred, copy=True)
            other = _copy.copy(m)
            other.fit(Xfit, yfit * 1.5 + 0.3 * numpy.asarray(X[:, 0], dtype=float) + 1.0)
            ctx.hit("tree.shallow_copy_refit")
            ctx.extra["shallow_copy_same_leaf_count"] = ctx.extra.get("shallow_copy_same_leaf_count", 0) + int(
                other.tree_.n_leaves == m.tree_.n_leaves)
            if not numpy.array_equal(m.predict(X), keepP):
                ctx.violation(K + "changed-by-refit-of-shallow-copy", "fitting copy.copy(model) on other targets changed "
                              "the predictions of the model itself (shared per-leaf coefficients refilled in place)",
                              cfg=cfg)
        except Exception as e:
            ctx.violation(K + "raised/%s/shallow-copy" % type(e).__name__, str(e)[:150], cfg=cfg)
    scale = 1e-9 * (1 + numpy.abs(y).max())
    for l in leaves:
        rows = leaf == l
        if not rows.any():
            continue
        if crit == "simple":
            ww = numpy.ones(n) if w is None else w
            exp = float((y[rows] * ww[rows]).sum() / ww[rows].sum())
            if not numpy.allclose(pred[rows], exp, rtol=1e-9, atol=scale):
                ctx.violation(K + "not-leaf-mean%s" % ("/weighted" if weighted else ""),
                              "leaf %d: prediction %r, (weighted) mean of its training targets %r" % (
                                  l, float(pred[rows][0]), exp), cfg=cfg)
                break
            if (lq == l).any() and not numpy.allclose(pq[lq == l], exp, rtol=1e-9, atol=scale):
                ctx.violation(K + "not-leaf-mean/new-rows", "new rows in leaf %d do not get its mean" % l, cfg=cfg)
                break
        else:
            A = numpy.hstack([X[rows], numpy.ones((rows.sum(), 1))])
            beta, _, rank, sv = numpy.linalg.lstsq(A, y[rows], rcond=None)
            exp = A @ beta
            cond_scale = 1e-6 * (1 + numpy.abs(y[rows]).max()) if xkind != "gauss" else 1e-7 * (
                1 + numpy.abs(y[rows]).max())
            if not numpy.allclose(pred[rows], exp, rtol=1e-6, atol=cond_scale):
                ctx.violation(K + "not-leaf-least-squares/%s" % xkind,
                              "leaf %d (%d rows, rank %d): prediction differs from the OLS fit of its rows by %.3g" % (
                                  l, int(rows.sum()), rank, float(numpy.abs(pred[rows] - exp).max())), cfg=cfg)
                break
            if rank == A.shape[1] and (lq == l).any() and sv[-1] / sv[0] > 1e-5:
                Aq = numpy.hstack([Q[lq == l], numpy.ones((int((lq == l).sum()), 1))])
                eq = Aq @ beta
                if not numpy.allclose(pq[lq == l], eq, rtol=1e-5, atol=1e-5 * (1 + numpy.abs(eq).max())):
                    ctx.violation(K + "not-leaf-least-squares/new-rows", "new rows in leaf %d are not predicted by "
                                  "its OLS fit" % l, cfg=cfg)
                    break
    # pickle / clone survive (criteria pickle to an empty state)
    if n >= 3:
        ctx.nontriv("tree", cfg)
    ctx.cls("tree=" + crit)
    ctx.cls("X=" + xkind)
    ctx.sample({"cfg": cfg, "n_leaves": int(len(leaves))})


def run_underdet(case, ctx):
    """Leaf-level least squares on rank-deficient nodes (duplicated rows, fewer rows than coefficients):
    the fitted values of any least-squares solution are unique, so they must match lstsq's."""
    from mlinsights.mlmodel.piecewise_tree_regression_criterion_linear import LinearRegressorCriterion
    rng = numpy.random.RandomState(case["sub"] % (2 ** 31))
    for j in range(case["fits"]):
        n = int(rng.randint(2, 8))
        d = int(rng.randint(1, 7))
        kind = ["duplicated-rows", "duplicated-column", "plain"][j % 3]
        X = rng.randn(n, d) * [1.0, 10.0, 0.1][rng.randint(3)]
        if kind == "duplicated-rows" and n > 2:
            X[n // 2:] = X[: n - n // 2]
        if kind == "duplicated-column" and d > 1:
            X[:, -1] = X[:, 0]
        y = rng.randn(n)
        cfg = {"n": n, "d": d, "kind": kind, "seed": case["sub"], "j": j}
        c = LinearRegressorCriterion.create(numpy.ascontiguousarray(X), numpy.ascontiguousarray(y.reshape(-1, 1)))
        beta = numpy.empty(d + 1)
        c.node_beta(beta)
        A = numpy.hstack([X, numpy.ones((n, 1))])
        exp = A @ numpy.linalg.lstsq(A, y, rcond=None)[0]
        ctx.hit("leaf.least_squares")
        if not numpy.allclose(A @ beta, exp, rtol=1e-6, atol=1e-6 * (1 + numpy.abs(y).max())):
            under = "underdetermined" if n < d + 1 else "overdetermined"
            ctx.violation("C09/leaf/not-least-squares/%s/%s" % (kind, under),
                          "node_beta of a %dx%d node (%s) is not a least-squares solution: fitted values off by %.3g, "
                          "|beta| up to %.3g" % (n, d + 1, kind, float(numpy.abs(A @ beta - exp).max()),
                                                 float(numpy.abs(beta).max())), cfg=cfg)
        if n >= 3:
            ctx.nontriv("underdet", cfg)
    ctx.cls("leaf-least-squares")


def run_dgelss(case, ctx):
    from mlinsights.mlmodel.direct_blas_lapack import dgelss
    asan = case.get("flavour") == "asan"
    rng = numpy.random.RandomState(case["sub"] % (2 ** 31))
    for shape in ("tall", "square", "rank-deficient", "one-column", "ill-conditioned"):
        rows = int(rng.randint(2, 30))
        cols = {"tall": int(rng.randint(1, rows)), "square": rows, "rank-deficient": min(rows, 3),
                "one-column": 1, "ill-conditioned": min(rows, 2)}[shape]
        A = rng.randn(rows, cols)
        if shape == "rank-deficient" and cols >= 2:
            A[:, -1] = A[:, 0] * 2
        if shape == "ill-conditioned":
            A[:, 0] = 2000 + rng.rand(rows) * 10
            if cols > 1:
                A[:, 1] = 1.0
        b = rng.randn(rows, 1)
        At = numpy.ascontiguousarray(A.T.copy())
        B = b.copy()
        try:
            # an exactly rank-deficient system needs a cut-off above rounding noise (the caller's choice:
            # prec=-1 means machine precision to LAPACK); the other shapes use the default
            info = dgelss(At, B, 2.3e-16 * max(rows, cols)) if shape == "rank-deficient" else dgelss(At, B)
        except Exception as e:
            ctx.violation("C09/dgelss/raised/%s" % type(e).__name__, str(e)[:150], shape=shape)
            continue
        ctx.hit("asan.dgelss" if asan else "dgelss")
        exp = numpy.linalg.lstsq(A, b, rcond=None)[0]
        r_got = numpy.linalg.norm(A @ B[:cols] - b)
        r_exp = numpy.linalg.norm(A @ exp - b)
        if info != 0 or r_got > r_exp * (1 + 1e-6) + 1e-9:
            ctx.violation("C09/dgelss/not-least-squares/%s" % shape, "info=%r residual %r vs lstsq %r" % (
                info, r_got, r_exp), rows=rows, cols=cols)
    ctx.cls("dgelss")


def run_memcheck(case, ctx):
    """Valgrind memcheck (the only tool here that sees uninitialised reads) on a small workload; only error
    contexts with a frame inside an mlinsights extension count."""
    import os
    import re
    import subprocess
    import tempfile
    from vrt import build_ext
    log = tempfile.mktemp(prefix="memcheck-", suffix=".log", dir=os.path.join(build_ext.VERIF, ".work"))
    env = dict(os.environ, PYTHONMALLOC="malloc", PYTHONPATH=build_ext.VERIF, VERIF_EXT_FLAVOUR="plain")
    env.pop("LD_PRELOAD", None)
    try:
        p = subprocess.run(["valgrind", "--tool=memcheck", "--error-limit=no", "--num-callers=16",
                            "--log-file=" + log, sys.executable if False else "/venv/bin/python", "-m",
                            "vrt.memcheck_workload"], cwd=build_ext.VERIF, env=env, stdout=subprocess.PIPE,
                           stderr=subprocess.STDOUT, timeout=900)
    except (OSError, subprocess.TimeoutExpired) as e:
        ctx.excluded("memcheck unavailable or timed out: %s" % type(e).__name__)
        return
    out = p.stdout.decode("utf8", "replace")
    if "MEMCHECK-WORKLOAD" not in out:
        ctx.excluded("memcheck workload did not complete")
        return
    ctx.hit("memcheck.workload")
    text = open(log, errors="replace").read() if os.path.exists(log) else ""
    blocks = re.split(r"\n==\d+== \n", text)
    ours, foreign = [], 0
    for b in blocks:
        if not re.search(r"(Invalid (read|write)|uninitialised|Mismatched free|Invalid free|Source and destination)", b):
            continue
        if re.search(r"piecewise_tree_regression|direct_blas_lapack|_tree_digitize", b):
            ours.append(b[:1500])
        else:
            foreign += 1
    ctx.extra["memcheck"] = {"error_contexts_with_mlinsights_frame": len(ours), "foreign_contexts": foreign,
                             "workload": out.strip().splitlines()[-1][:200]}
    for b in ours[:3]:
        ctx.violation("C09/memcheck/report", "valgrind memcheck reports an error with a frame inside an mlinsights "
                      "extension", report=b)
    try:
        os.remove(log)
    except OSError:
        pass


def run_case(case, ctx):
    if case["gen"] == "memcheck":
        return run_memcheck(case, ctx)
    {"crit": run_crit, "tree": run_tree, "dgelss": run_dgelss, "underdet": run_underdet}[case["gen"]](case, ctx)


def summarize(extras, counters):
    mc = [e["memcheck"] for e in extras if "memcheck" in e]
    return {"memcheck": mc[0] if mc else "not run in this tier"}


def evaluations(counters, ncases):
    return int(sum(v for k, v in counters.items() if not k.startswith("sanitizer")))
