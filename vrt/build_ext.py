"""Build the six Cython extensions of mlinsights from $VERIF_REPO sources.

Flavours:
  plain : gcc -O2
  asan  : gcc -O1 -g -fno-omit-frame-pointer -fsanitize=address,undefined

The cache key is the SHA-256 of every .pyx/.pxd source plus the flavour and the
versions of Python / NumPy / Cython / scikit-learn / SciPy, so that an edited
source is rebuilt and an untouched one is not.  Output layout:

  <cache>/<flavour>-<key>/mlinsights/mlmodel/<name>.cpython-312-...so
  <cache>/<flavour>-<key>/mlinsights/mltree/<name>.cpython-312-...so

The directory is written atomically (built in a temp dir, then renamed), so
parallel checks racing on the same key are safe.
"""
import hashlib
import os
import shutil
import subprocess
import sys
import sysconfig
import tempfile
import time
from concurrent.futures import ThreadPoolExecutor

VERIF = os.path.dirname(os.path.dirname(os.path.abspath(__file__)))
CACHE = os.environ.get("VERIF_CACHE", os.path.join(VERIF, ".cache", "ext"))

MODULES = [
    ("mlmodel", "_piecewise_tree_regression_common"),
    ("mlmodel", "piecewise_tree_regression_criterion"),
    ("mlmodel", "piecewise_tree_regression_criterion_fast"),
    ("mlmodel", "piecewise_tree_regression_criterion_linear"),
    ("mlmodel", "direct_blas_lapack"),
    ("mltree", "_tree_digitize"),
]
EXT_NAMES = {"mlinsights.%s.%s" % m for m in MODULES}

FLAGS = {
    "plain": ["-O2", "-g0"],
    # halt/recover is steered at run time through ASAN_OPTIONS/UBSAN_OPTIONS
    "asan": ["-O1", "-g", "-fno-omit-frame-pointer", "-fsanitize=address,undefined"],
}


def repo_root():
    return os.path.abspath(os.environ.get("VERIF_REPO", "/repo"))


def _sources(repo):
    out = []
    for sub in ("mlmodel", "mltree"):
        d = os.path.join(repo, "mlinsights", sub)
        for f in sorted(os.listdir(d)):
            if f.endswith((".pyx", ".pxd")):
                out.append(os.path.join(d, f))
    return out


def source_key(repo, flavour):
    import numpy
    import Cython
    import sklearn
    import scipy
    h = hashlib.sha256()
    h.update(flavour.encode())
    h.update(" ".join(FLAGS[flavour]).encode())
    for v in (sys.version, numpy.__version__, Cython.__version__,
              sklearn.__version__, scipy.__version__):
        h.update(v.encode())
    for f in _sources(repo):
        h.update(os.path.relpath(f, repo).encode())
        with open(f, "rb") as fh:
            h.update(fh.read())
    return h.hexdigest()[:20]


def build_dir(repo=None, flavour="plain"):
    repo = repo or repo_root()
    return os.path.join(CACHE, "%s-%s" % (flavour, source_key(repo, flavour)))


def _run(cmd, cwd):
    p = subprocess.run(cmd, cwd=cwd, stdout=subprocess.PIPE,
                       stderr=subprocess.STDOUT, text=True)
    if p.returncode != 0:
        raise RuntimeError("command failed: %s\n%s" % (" ".join(cmd), p.stdout[-4000:]))
    return p.stdout


def build(repo=None, flavour="plain", verbose=False):
    """Return the directory holding the built extensions (building if needed)."""
    repo = repo or repo_root()
    out = build_dir(repo, flavour)
    if os.path.isfile(os.path.join(out, "OK")):
        return out
    import numpy
    t0 = time.time()
    os.makedirs(CACHE, exist_ok=True)
    tmp = tempfile.mkdtemp(prefix="build-", dir=CACHE)
    try:
        # copy sources into a package tree
        for sub in ("mlmodel", "mltree"):
            os.makedirs(os.path.join(tmp, "mlinsights", sub))
            open(os.path.join(tmp, "mlinsights", sub, "__init__.py"), "w").close()
        open(os.path.join(tmp, "mlinsights", "__init__.py"), "w").close()
        for f in _sources(repo):
            rel = os.path.relpath(f, repo)
            shutil.copy(f, os.path.join(tmp, rel))
        inc = [sysconfig.get_paths()["include"], numpy.get_include()]
        suffix = sysconfig.get_config_var("EXT_SUFFIX")
        cflags = ["-fPIC", "-fno-strict-overflow", "-fwrapv", "-w",
                  "-DNPY_NO_DEPRECATED_API=NPY_1_7_API_VERSION"] + FLAGS[flavour]

        def one(mod):
            sub, name = mod
            pyx = os.path.join("mlinsights", sub, name + ".pyx")
            _run([sys.executable, "-m", "cython", "-3", pyx], cwd=tmp)
            c = os.path.join("mlinsights", sub, name + ".c")
            so = os.path.join("mlinsights", sub, name + suffix)
            cmd = ["gcc", "-shared"] + cflags
            for i in inc:
                cmd += ["-I", i]
            cmd += [c, "-o", so]
            _run(cmd, cwd=tmp)
            os.remove(os.path.join(tmp, c))
            return so

        with ThreadPoolExecutor(max_workers=6) as ex:
            list(ex.map(one, MODULES))
        with open(os.path.join(tmp, "OK"), "w") as f:
            f.write("%s %s %.1fs\n" % (repo, flavour, time.time() - t0))
        try:
            os.rename(tmp, out)
        except OSError:
            # another process won the race
            shutil.rmtree(tmp, ignore_errors=True)
        _prune(flavour, keep=out)
    finally:
        if os.path.isdir(tmp):
            shutil.rmtree(tmp, ignore_errors=True)
    if verbose:
        print("built %s extensions in %.1fs -> %s" % (flavour, time.time() - t0, out))
    return out


def _prune(flavour, keep, n=3):
    """Keep the n most recent build dirs of this flavour."""
    try:
        ds = [os.path.join(CACHE, d) for d in os.listdir(CACHE)
              if d.startswith(flavour + "-")]
        ds.sort(key=lambda d: os.path.getmtime(d), reverse=True)
        for d in ds[n:]:
            if d != keep:
                shutil.rmtree(d, ignore_errors=True)
    except OSError:
        pass


if __name__ == "__main__":
    fl = sys.argv[1:] or ["plain"]
    for f in fl:
        print(build(flavour=f, verbose=True))
