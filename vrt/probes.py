"""Probe estimators handed to the real meta-estimators (observability without source hooks).

They are BaseEstimators (clone keeps `tag`, `base`, ...), wrap a real scikit-learn model, and record on
themselves what they were given at fit time.  A module-level Recorder (thread-safe) keeps the global
order of fit start / end events for the schedule monitors.
"""
import threading

import numpy
from sklearn.base import BaseEstimator, ClassifierMixin, RegressorMixin, TransformerMixin
from sklearn.dummy import DummyClassifier, DummyRegressor
from sklearn.linear_model import LinearRegression, LogisticRegression
from sklearn.tree import DecisionTreeClassifier, DecisionTreeRegressor

from .sched import Recorder

RECORDER = Recorder()


class InjectedFault(RuntimeError):
    pass


class CostSensitiveLogistic(LogisticRegression):
    """A classifier whose decision rule is NOT the arg max of its probabilities: the first class is answered as
    soon as three times its probability beats the others (a cost-sensitive / threshold-tuned model)."""

    def predict(self, X):
        P = self.predict_proba(X) * numpy.array([3.0] + [1.0] * (len(self.classes_) - 1))
        return self.classes_[numpy.argmax(P, axis=1)]


class NanOutsideRange(BaseEstimator, RegressorMixin):
    """A regressor that answers NaN for a row whose first feature lies outside the range it was trained on (an
    isotonic regression with out_of_bounds='nan', a radius-neighbours model without neighbour), the mean otherwise."""

    def fit(self, X, y, sample_weight=None):
        v = numpy.asarray(X, dtype=float)[:, 0]
        self.lo_, self.hi_ = float(v.min()), float(v.max())
        self.mean_ = float(numpy.average(y, weights=sample_weight))
        return self

    def predict(self, X):
        v = numpy.asarray(X, dtype=float)[:, 0]
        return numpy.where((v < self.lo_) | (v > self.hi_), numpy.nan, self.mean_)


def _inner(kind):
    return {
        "nan-outside": NanOutsideRange,
        "cost-logistic": lambda: CostSensitiveLogistic(max_iter=200),
        "linear": LinearRegression,
        "dummy-reg": DummyRegressor,
        "tree-reg": lambda: DecisionTreeRegressor(max_depth=2, random_state=0),
        "logistic": lambda: LogisticRegression(max_iter=200),
        "dummy-clf": lambda: DummyClassifier(strategy="prior"),
        "tree-clf": lambda: DecisionTreeClassifier(max_depth=2, random_state=0),
    }[kind]()


class _Rec(BaseEstimator):
    def __init__(self, base="linear", tag=0, fail_on=None):
        self.base = base
        self.tag = tag
        self.fail_on = fail_on  # a callable (X, y) -> bool, or None

    def fit(self, X, y, sample_weight=None):
        RECORDER.add("fit-start", self.tag, threading.get_ident(), int(X.shape[0]))
        if self.fail_on is not None and self.fail_on(X, y):
            RECORDER.add("fit-raise", self.tag, threading.get_ident(), int(X.shape[0]))
            raise InjectedFault("probe %r told to fail on this call" % (self.tag,))
        self.seen_X_ = numpy.array(X, copy=True)
        self.given_X_ = X        # the object itself: a model may keep its training features (k-NN, kernels)
        self.seen_y_ = numpy.array(y, copy=True)
        self.seen_w_ = None if sample_weight is None else numpy.array(sample_weight, copy=True)
        self.inner_ = _inner(self.base)
        if sample_weight is None:
            self.inner_.fit(X, y)
        else:
            self.inner_.fit(X, y, sample_weight=sample_weight)
        if hasattr(self.inner_, "classes_"):
            self.classes_ = self.inner_.classes_
        RECORDER.add("fit-end", self.tag, threading.get_ident(), int(X.shape[0]))
        return self

    def predict(self, X):
        return self.inner_.predict(X)


class RecRegressor(_Rec, RegressorMixin):
    pass


class RecClassifier(_Rec, ClassifierMixin):
    def __init__(self, base="logistic", tag=0, fail_on=None):
        _Rec.__init__(self, base=base, tag=tag, fail_on=fail_on)

    def predict_proba(self, X):
        return self.inner_.predict_proba(X)

    def decision_function(self, X):
        return self.inner_.decision_function(X)


class RecTransformer(BaseEstimator, TransformerMixin):
    """Records the last input/output it saw (independent tap for pipeline monitors)."""

    def __init__(self, scale=2.0, tag=0):
        self.scale = scale
        self.tag = tag

    def fit(self, X, y=None):
        self.n_features_in_ = numpy.asarray(X).shape[1]
        self.fitted_ = True
        return self

    def transform(self, X):
        Xa = numpy.asarray(X, dtype=float)
        out = Xa * self.scale
        self.last_in_ = Xa.copy()
        self.last_out_ = out.copy()
        return out


class FailAt:
    """fail_on callable: raises on the k-th call (1-based), thread-safe."""

    def __init__(self, k):
        self.k = k
        self.n = 0
        self._lock = threading.Lock()

    def __call__(self, X, y):
        with self._lock:
            self.n += 1
            return self.n == self.k

    def __deepcopy__(self, memo):  # clone() deep-copies parameters: the counter must stay shared
        return self


def row_index(X_train):
    """dict: bytes of a training row -> list of its indices (rows are made unique by the generators)."""
    d = {}
    for i, r in enumerate(numpy.ascontiguousarray(X_train, dtype=float)):
        d.setdefault(r.tobytes(), []).append(i)
    return d


def rows_to_indices(index, X_sub):
    out = []
    for r in numpy.ascontiguousarray(X_sub, dtype=float):
        out.append(index.get(r.tobytes(), [-1])[0])
    return numpy.array(out, dtype=int)


def kept_arrays_intact(models):
    """None, or a description: what each recorder was given is still what it holds, and no two share memory."""
    seen = []
    for j, m in enumerate(models):
        g = getattr(m, "given_X_", None)
        if g is None or not isinstance(g, numpy.ndarray):
            continue
        if g.shape != m.seen_X_.shape or not numpy.array_equal(g, m.seen_X_):
            return "the feature array given to local model %d was overwritten after its fit" % j
        if any(numpy.shares_memory(g, o) for o in seen):
            return "two local models were given the same feature buffer"
        seen.append(g)
    return None
