"""Monitor kernel: class-level wrappers on the real methods of the library's estimators.

A monitor attached here observes *every* call of the wrapped methods - the harness's own, but also the
calls meta-estimators, clone, Pipeline, GridSearchCV, joblib workers and upstream's tests make.  Wrappers
never change behaviour: they pass the arguments through untouched, return the callee's result object
itself and re-raise the callee's exception itself.  Three callbacks per call: before, after, on_raise.
"""
import functools
import threading

_LOCK = threading.Lock()
_INSTALLED = []   # (cls, name, original)
_local = threading.local()


def install(classes, methods, before, after, on_raise=None):
    """Wrap `methods` on each class that *defines* them (subclasses inherit the wrapper)."""
    n = 0
    for cls in classes:
        for name in methods:
            if name not in vars(cls):
                continue
            orig = vars(cls)[name]
            if not callable(orig) or getattr(orig, "_vrt_wrapped", False):
                continue
            setattr(cls, name, _wrap(cls, name, orig, before, after, on_raise))
            _INSTALLED.append((cls, name, orig))
            n += 1
    return n


def uninstall():
    while _INSTALLED:
        cls, name, orig = _INSTALLED.pop()
        setattr(cls, name, orig)


def _wrap(cls, name, orig, before, after, on_raise):
    @functools.wraps(orig)
    def wrapper(self, *args, **kwargs):
        if getattr(_local, "busy", False):     # a callback itself calling into the library
            return orig(self, *args, **kwargs)
        _local.busy = True
        try:
            token = before(self, name, args, kwargs)
        except Exception:
            token = None
        finally:
            _local.busy = False
        try:
            res = orig(self, *args, **kwargs)
        except BaseException as e:
            if token is not None:
                _local.busy = True
                try:
                    (on_raise or after)(self, name, args, kwargs, token, e)
                except Exception:
                    pass
                finally:
                    _local.busy = False
            raise
        if token is not None:
            _local.busy = True
            try:
                after(self, name, args, kwargs, token, res)
            except Exception:
                pass
            finally:
                _local.busy = False
        return res
    wrapper._vrt_wrapped = True
    return wrapper
