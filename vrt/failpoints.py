"""Source-free failpoints: a census of the fallible call sites an operation executes inside
REPO/mlinsights, and an injector that raises InjectedFault when a chosen site is about to execute.

Census (sys.monitoring CALL events, only for code objects whose file is under REPO/mlinsights): a call
site (file, function, line) is *fallible* when the callee is defined outside mlinsights in scikit-learn /
joblib / scipy / pandas, or is a fit / predict / transform / ... method of an estimator object.  Pure
NumPy calls and builtins are not fault sites (an injected numpy.arange failure is not a realistic fault).

Injection (LINE events on the one code object): raising from the LINE callback propagates into the
monitored frame before the statement runs - observationally "the first external call of this statement
failed before returning".
"""
import os
import sys

from .boot import REPO
from .probes import InjectedFault

TOOL = 4
ROOT = os.path.join(os.path.realpath(REPO), "mlinsights") + os.sep
EST_METHODS = {"fit", "predict", "predict_proba", "decision_function", "transform", "fit_transform", "fit_predict",
               "score", "apply", "decision_path", "kneighbors", "inverse_transform", "partial_fit"}
EXTERNAL = ("sklearn", "joblib", "scipy", "pandas")


def _callee_info(callee):
    mod = getattr(callee, "__module__", None) or ""
    name = getattr(callee, "__name__", None) or type(callee).__name__
    selfobj = getattr(callee, "__self__", None)
    if selfobj is not None and hasattr(selfobj, "get_params") and name in EST_METHODS:
        return "estimator.%s" % name
    if isinstance(callee, type):
        mod = callee.__module__
    top = mod.split(".")[0]
    if top in EXTERNAL:
        return "%s.%s" % (mod, name)
    # bound method of an external object (e.g. Parallel.__call__)
    if selfobj is not None:
        m2 = type(selfobj).__module__.split(".")[0]
        if m2 in EXTERNAL:
            return "%s.%s.%s" % (type(selfobj).__module__, type(selfobj).__name__, name)
    cls = type(callee)
    if cls.__module__.split(".")[0] in EXTERNAL and hasattr(callee, "__call__") and not hasattr(callee, "__code__"):
        return "%s.%s()" % (cls.__module__, cls.__name__)
    return None


def census(fn):
    """Run fn() recording fallible call sites.  Returns (result_or_exception, {site: [callee..], ...}, hits)."""
    mon = sys.monitoring
    sites = {}
    hits = {}

    def on_call(code, offset, callee, arg0):
        fnm = code.co_filename
        if not fnm.startswith(ROOT):
            return mon.DISABLE
        info = _callee_info(callee)
        if info is None:
            return None
        line = None
        for start, end, ln in code.co_lines():
            if start <= offset < end:
                line = ln
                break
        key = (os.path.relpath(fnm, os.path.dirname(ROOT.rstrip(os.sep))), code.co_name, line)
        sites.setdefault(key, set()).add(info)
        hits[key] = hits.get(key, 0) + 1
        return None

    try:
        mon.use_tool_id(TOOL, "vrt-failpoints")
    except ValueError:
        mon.free_tool_id(TOOL)
        mon.use_tool_id(TOOL, "vrt-failpoints")
    mon.register_callback(TOOL, mon.events.CALL, on_call)
    mon.set_events(TOOL, mon.events.CALL)
    mon.restart_events()
    try:
        try:
            res = fn()
        except Exception as e:  # the census of a failing operation is still a census
            res = e
    finally:
        mon.set_events(TOOL, 0)
        mon.register_callback(TOOL, mon.events.CALL, None)
        mon.free_tool_id(TOOL)
    return res, {k: sorted(v) for k, v in sites.items()}, hits


class Inject:
    """Context manager: raise InjectedFault when (file, function, line) is about to run for the n-th time."""

    def __init__(self, site, nth=1, exc=None):
        self.file, self.func, self.line = site
        self.nth = nth
        self.exc = exc or InjectedFault        # e.g. KeyboardInterrupt: the user interrupts a long fit
        self.count = 0
        self.fired = False

    def _line(self, code, lineno):
        mon = sys.monitoring
        if lineno != self.line or code.co_name != self.func or not code.co_filename.endswith(self.file):
            return mon.DISABLE
        self.count += 1
        if self.count == self.nth and not self.fired:
            self.fired = True
            raise self.exc("injected fault at %s:%s:%d (hit %d)" % (self.file, self.func, self.line, self.nth))
        return None

    def __enter__(self):
        mon = sys.monitoring
        try:
            mon.use_tool_id(TOOL, "vrt-failpoints")
        except ValueError:
            mon.free_tool_id(TOOL)
            mon.use_tool_id(TOOL, "vrt-failpoints")
        mon.register_callback(TOOL, mon.events.LINE, self._line)
        mon.set_events(TOOL, mon.events.LINE)
        mon.restart_events()
        return self

    def __exit__(self, *a):
        mon = sys.monitoring
        mon.set_events(TOOL, 0)
        mon.register_callback(TOOL, mon.events.LINE, None)
        mon.free_tool_id(TOOL)
        return False
