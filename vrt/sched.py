"""Schedule perturbation for the thread-parallel estimators (joblib prefer='threads').

sys.monitoring LINE events inside the chosen source files, when executed on a non-main thread (and, if
asked, on the main thread too), call time.sleep(0) / a few microseconds with a seeded probability: this
forces GIL hand-offs between statements of different workers.  The recorder keeps the global order of
probe events so that the number of *distinct interleavings observed* can be reported.
"""
import random
import sys
import threading
import time

TOOL = 3  # sys.monitoring tool id (0-5); 3 is free for application use


class Perturb:
    def __init__(self, files, seed=0, prob=0.3, max_us=200):
        self.files = tuple(files)
        self.seed = seed
        self.prob = prob
        self.max_us = max_us
        self.events = 0
        self.yields = 0
        self._local = threading.local()
        self._main = threading.main_thread()
        self._on = False

    def _rng(self):
        r = getattr(self._local, "rng", None)
        if r is None:
            r = random.Random(self.seed * 1000003 + (threading.get_ident() % 9973))
            self._local.rng = r
        return r

    def _line(self, code, lineno):
        if not code.co_filename.endswith(self.files):
            return sys.monitoring.DISABLE
        if threading.current_thread() is self._main:
            return None
        self.events += 1
        r = self._rng()
        if r.random() < self.prob:
            self.yields += 1
            us = r.random() * self.max_us
            time.sleep(us / 1e6 if us > 20 else 0)
        return None

    def __enter__(self):
        mon = sys.monitoring
        try:
            mon.use_tool_id(TOOL, "vrt-sched")
        except ValueError:
            mon.free_tool_id(TOOL)
            mon.use_tool_id(TOOL, "vrt-sched")
        mon.register_callback(TOOL, mon.events.LINE, self._line)
        mon.set_events(TOOL, mon.events.LINE)
        mon.restart_events()
        self._on = True
        return self

    def __exit__(self, *a):
        mon = sys.monitoring
        mon.set_events(TOOL, 0)
        mon.register_callback(TOOL, mon.events.LINE, None)
        mon.free_tool_id(TOOL)
        self._on = False
        return False


class Recorder:
    """Thread-safe ordered log of probe events; one signature per run."""

    def __init__(self):
        self._lock = threading.Lock()
        self.log = []

    def add(self, *ev):
        with self._lock:
            self.log.append(ev)

    def signature(self):
        with self._lock:
            return tuple(self.log)

    def clear(self):
        with self._lock:
            del self.log[:]
