"""Memory layouts and ways of configuring an estimator, shared by the property workloads.

The values never change; what changes is how they sit in memory (strides, order, writeability) or how the
hyper-parameters reached the object (constructor vs set_params after construction).
"""
import numpy

LAYOUTS = ("contiguous", "contiguous", "fortran", "strided-columns", "strided-rows", "negative-stride", "read-only")


def pick(sub, salt=0):
    return LAYOUTS[(sub // 2 + salt) % len(LAYOUTS)]


def relayout(a, kind):
    """Same values, another memory layout.  1-D and 2-D numeric arrays; anything else is returned as is."""
    if a is None or not isinstance(a, numpy.ndarray) or a.ndim not in (1, 2) or kind == "contiguous":
        return a
    if kind == "read-only":
        b = a.copy()
        b.setflags(write=False)
        return b
    if kind == "negative-stride":
        return a[::-1].copy()[::-1]
    if a.ndim == 1:
        if kind == "fortran":
            return a
        if kind == "strided-columns":     # a column of a C-ordered table
            t = numpy.full((len(a), 3), -777, dtype=a.dtype)
            t[:, 1] = a
            return t[:, 1]
        t = numpy.full(2 * len(a), -777, dtype=a.dtype)
        t[::2] = a
        return t[::2]
    if kind == "fortran":
        return numpy.asfortranarray(a)
    if kind == "strided-columns":
        t = numpy.full((a.shape[0], 2 * a.shape[1] + 1), -777, dtype=a.dtype)
        t[:, 1::2] = a
        return t[:, 1::2]
    t = numpy.full((2 * a.shape[0], a.shape[1]), -777, dtype=a.dtype)
    t[::2] = a
    return t[::2]


def numpy_scalars(params):
    """The same values as NumPy scalars (what a parameter grid built with numpy, a DataFrame cell or
    json -> numpy round trip hands over): True -> numpy.True_, 3 -> numpy.int64(3), 0.5 -> numpy.float64(0.5)."""
    out = {}
    for k, v in params.items():
        if isinstance(v, bool):
            out[k] = numpy.bool_(v)
        elif isinstance(v, int):
            out[k] = numpy.int64(v)
        elif isinstance(v, float):
            out[k] = numpy.float64(v)
        else:
            out[k] = v
    return out


def build(cls, params, via_set_params, decoys=None, as_numpy_scalars=False, **fixed):
    """cls(**fixed, **params) - or cls(**fixed, **decoys) followed by set_params(**params)."""
    if as_numpy_scalars:
        params = numpy_scalars(params)
    if not via_set_params:
        return cls(**fixed, **params)
    obj = cls(**fixed, **(decoys or {}))
    obj.set_params(**params)
    return obj
