"""Per-case monitoring context: counters, input classes, violations, samples."""
import collections
import hashlib
import json
import traceback

import numpy


def jsonable(o, depth=0):
    """Best-effort conversion to something json.dumps accepts (for witnesses)."""
    if depth > 6:
        return repr(o)[:200]
    if o is None or isinstance(o, (bool, int, str)):
        return o
    if isinstance(o, float):
        return o if o == o and abs(o) != float("inf") else repr(o)
    if isinstance(o, (numpy.integer,)):
        return int(o)
    if isinstance(o, (numpy.floating,)):
        return jsonable(float(o))
    if isinstance(o, numpy.bool_):
        return bool(o)
    if isinstance(o, numpy.ndarray):
        if o.size <= 64:
            return jsonable(o.tolist(), depth + 1)
        return {"ndarray": list(o.shape), "dtype": str(o.dtype),
                "head": jsonable(o.ravel()[:16].tolist(), depth + 1)}
    if isinstance(o, dict):
        return {str(k): jsonable(v, depth + 1) for k, v in list(o.items())[:64]}
    if isinstance(o, (list, tuple, set, frozenset)):
        return [jsonable(v, depth + 1) for v in list(o)[:64]]
    return repr(o)[:300]


def fp(*objs):
    """Short stable fingerprint of json-able objects."""
    h = hashlib.sha1()
    for o in objs:
        h.update(json.dumps(jsonable(o), sort_keys=True, default=repr).encode())
    return h.hexdigest()[:16]


class Ctx:
    MAX_VIOL_PER_CASE = 8

    def __init__(self, prop, case):
        self.prop = prop
        self.case = case
        self.counters = collections.Counter()
        self.classes = collections.Counter()
        self.nontrivial = set()
        self.violations = []
        self.samples = []
        self.notes = collections.Counter()
        self.extra = {}

    # -- monitors report that they evaluated something
    def hit(self, monitor, n=1):
        self.counters[monitor] += n

    # -- input class histogram
    def cls(self, name, n=1):
        self.classes[name] += n

    # -- excluded / not judged, with a reason
    def excluded(self, why, n=1):
        self.notes[why] += n

    def nontriv(self, *objs):
        self.nontrivial.add(fp(*objs))

    def sample(self, obj):
        if len(self.samples) < 2:
            self.samples.append(jsonable(obj))

    def violation(self, key, msg, **detail):
        """key names the mechanism (class/operation/failure mode), never random values."""
        # the cap bounds the size of a flooded case, but never hides a mechanism: the first occurrences of every
        # distinct key are kept whatever the number of entries (a known finding repeated many times must not mask
        # another violation of the same case)
        if len(self.violations) >= self.MAX_VIOL_PER_CASE and (
                sum(1 for v in self.violations if v["key"] == key) >= 2 or len(self.violations) >= 40 * self.MAX_VIOL_PER_CASE):
            self.counters["violations_dropped"] += 1
            return
        self.violations.append({
            "property": self.prop, "key": key, "msg": msg,
            "detail": jsonable(detail), "case": self.case,
        })

    def check(self, cond, key, msg, **detail):
        if not cond:
            self.violation(key, msg, **detail)
        return bool(cond)

    def dump(self):
        return {
            "case": self.case,
            "counters": dict(self.counters),
            "classes": dict(self.classes),
            "nontrivial": sorted(self.nontrivial),
            "violations": self.violations,
            "samples": self.samples,
            "notes": dict(self.notes),
            "extra": jsonable(self.extra),
        }


def short_tb(exc):
    tb = traceback.extract_tb(exc.__traceback__)
    return ["%s:%d %s" % (f.filename.rsplit("/", 2)[-1], f.lineno, f.name) for f in tb[-6:]]
