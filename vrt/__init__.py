"""vrt: runtime-monitoring harness for sdpython/mlinsights (see /verif/DESIGN.md)."""
