"""python -m vrt.hashseed_probe <class name> <sub>: fits every variant of a registered class on both registry data
sets under numpy.random.seed and prints a JSON fingerprint of the outputs.  Run twice by C03 with two values of
PYTHONHASHSEED: the iteration order of sets / dicts keyed on strings is the only thing that differs between the
two processes, and a fitted model may not depend on it."""
import hashlib
import json
import sys
import warnings


def main(argv):
    name, sub = argv[0], int(argv[1])
    from . import boot
    boot.boot()
    import numpy
    from . import registry
    warnings.simplefilter("ignore")
    spec = registry.get(name)
    out = {}
    for vi in range(len(spec.variants)):
        def strings(rng):
            D = spec.data(rng)
            y = D.get("y") if isinstance(D, dict) else None
            if not isinstance(y, numpy.ndarray) or y.dtype.kind not in "iu" or len(numpy.unique(y)) > 6:
                raise ValueError("no label vector")
            names = numpy.array(["zebra", "apple", "mango", "kiwi", "fig", "plum", "lime"])
            return dict(D, y=names[numpy.searchsorted(numpy.unique(y), y)])

        for dname, maker in (("A", spec.data), ("B", spec.data_b), ("A-string-labels", strings)):
            key = "%d/%s" % (vi, dname)
            try:
                D = maker(numpy.random.RandomState(sub + 1))
                e = spec.make(vi)
                numpy.random.seed(sub + 17)
                spec.fit(e, D)
                Q = spec.query(numpy.random.RandomState(9), D)
                o = spec.outputs(e, Q, list(spec.methods))
                h = hashlib.sha1()
                for m in sorted(o):
                    a = numpy.asarray(o[m])
                    h.update(m.encode())
                    h.update(repr(a.tolist()).encode() if a.dtype == object else numpy.ascontiguousarray(a).tobytes())
                out[key] = h.hexdigest()
            except Exception as ex:
                out[key] = "raised %s" % type(ex).__name__
    boot.check_origin()
    print("HASHSEED-PROBE " + json.dumps(out, sort_keys=True))


if __name__ == "__main__":
    main(sys.argv[1:])
