#!/usr/bin/env python3
"""tools/mk_revert_seed.py Cxx <commit> : seeded/Cxx-revert-<commit>/ = the reverse of a fix: commit
(re-introduces the defect the monitors found on the original tree)."""
import json, os, subprocess, sys
prop, commit = sys.argv[1], sys.argv[2]
V = os.path.dirname(os.path.dirname(os.path.abspath(__file__)))
d = os.path.join(V, "seeded", "%s-revert-%s" % (prop, commit))
os.makedirs(d, exist_ok=True)
diff = subprocess.run(["git", "-C", "/repo", "diff", commit, commit + "^"], stdout=subprocess.PIPE, text=True).stdout
open(os.path.join(d, "patch.diff"), "w").write(diff)
msg = subprocess.run(["git", "-C", "/repo", "log", "-1", "--format=%s%n%n%b", commit], stdout=subprocess.PIPE, text=True).stdout
json.dump({"property": prop, "origin": "reverse of fix commit %s in /repo: re-introduces a defect of the original tree" % commit,
           "summary": msg.strip(), "needs_to_manifest": "see the commit message", "demo": None,
           "files_changed": [l[6:] for l in diff.splitlines() if l.startswith("+++ b/")]},
          open(os.path.join(d, "meta.json"), "w"), indent=1)
print(d)
