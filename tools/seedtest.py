#!/usr/bin/env python3
"""Run a check against a seeded (property-breaking) change without touching /repo.

  tools/seedtest.py <seed-dir> [--tier quick] [--pinned] [--demo]

<seed-dir> holds patch.diff, a demonstration and meta.json ({"property": "Cxx", "demo": "demo.py", ...}).
A scratch git worktree of /repo HEAD is created under /tmp/st (outside /repo and /verif), the patch is
applied there, the check is run with VERIF_REPO=<scratch> (so /repo itself is never modified and the
evidence files are not rewritten), and the worktree is removed with its build output.

Prints one line:  SEED <dir> property=Cxx rc=<check exit code> detected=<yes|NO> keys=[...]
"""
import argparse
import json
import os
import re
import shutil
import subprocess
import sys
import tempfile

VERIF = os.path.dirname(os.path.dirname(os.path.abspath(__file__)))
PINNED = ["_unittests/ut_sklapi", "_unittests/ut_helpers", "_unittests/ut_metrics",
          "_unittests/ut_plotting/test_dot.py", "_unittests/ut_plotting/test_str.py"]


def sh(cmd, **kw):
    return subprocess.run(cmd, stdout=subprocess.PIPE, stderr=subprocess.STDOUT, text=True, **kw)


def main():
    ap = argparse.ArgumentParser()
    ap.add_argument("seed_dir")
    ap.add_argument("--tier", default="quick")
    ap.add_argument("--pinned", action="store_true", help="also run the 46 pinned tests on the patched tree")
    ap.add_argument("--demo", action="store_true", help="also run the demonstration (clean: PASS, patched: FAIL)")
    ap.add_argument("--props", help="comma list of checks to run (default: the seed's property)")
    ap.add_argument("--seed", default="0")
    args = ap.parse_args()
    d = os.path.abspath(args.seed_dir)
    meta = json.load(open(os.path.join(d, "meta.json")))
    prop = meta["property"]
    props = args.props.split(",") if args.props else [prop]
    os.makedirs("/tmp/st", exist_ok=True)
    wt = tempfile.mkdtemp(prefix="%s-" % prop, dir="/tmp/st")
    os.rmdir(wt)
    r = sh(["git", "-C", "/repo", "worktree", "add", "-q", "--detach", wt, "HEAD"])
    if r.returncode:
        print("cannot create worktree:", r.stdout)
        return 2
    status = {}
    try:
        demo = os.path.join(d, meta.get("demo") or "demo.py")
        launcher = meta.get("launcher", "mlboot")
        env = dict(os.environ, PYTHONDONTWRITEBYTECODE="1")

        def run_demo():
            if launcher == "mlboot" and os.path.exists("/tmp/mlboot/run.py"):
                cmd = ["/venv/bin/python", "/tmp/mlboot/run.py", wt, demo]
            else:
                cmd = ["/venv/bin/python", os.path.join(VERIF, "tools", "runrepo.py"), wt, demo]
            return sh(cmd, cwd=wt, env=env, timeout=900)

        if args.demo:
            r = run_demo()
            status["demo_clean"] = "PASS" if r.returncode == 0 else "FAIL(rc=%d)" % r.returncode
        r = sh(["git", "-C", wt, "apply", os.path.join(d, "patch.diff")])
        if r.returncode:
            print("SEED %s property=%s patch does not apply: %s" % (d, prop, r.stdout.strip()[:300]))
            return 2
        if args.demo:
            r = run_demo()
            status["demo_patched"] = "FAIL" if r.returncode != 0 else "PASS(!)"
        if args.pinned:
            r = sh(["/venv/bin/python", "-m", "pytest", "-q", "-p", "no:cacheprovider", "--timeout=900"] + PINNED,
                   cwd=wt, env=env, timeout=1800)
            m = re.search(r"(\d+) passed", r.stdout)
            f = re.search(r"(\d+) failed", r.stdout)
            status["pinned"] = "%s passed%s" % (m.group(1) if m else "?", (", %s failed" % f.group(1)) if f else "")
        for p in props:
            envc = dict(os.environ, VERIF_REPO=wt, VERIF_SEED=args.seed)
            r = sh([os.path.join(VERIF, "check"), p, "--tier", args.tier, "--no-evidence"], env=envc,
                   timeout=7200)
            keys = re.findall(r"key=(C\d\d/\S+)", r.stdout)
            wall = re.search(r"wall=([\d.]+)s", r.stdout)
            print("SEED %s property=%s check=%s tier=%s rc=%d detected=%s wall=%s keys=%s %s" % (
                os.path.relpath(d, VERIF), prop, p, args.tier, r.returncode,
                "yes" if r.returncode == 1 and "VIOLATION property=%s" % p in r.stdout else "NO",
                wall.group(1) if wall else "?", keys[:6], status))
            if r.returncode not in (0, 1):
                print(r.stdout[-1500:])
    finally:
        sh(["git", "-C", "/repo", "worktree", "remove", "--force", wt])
        shutil.rmtree(wt, ignore_errors=True)
        sh(["git", "-C", "/repo", "worktree", "prune"])
    return 0


if __name__ == "__main__":
    sys.exit(main())
