#!/usr/bin/env python3
"""tools/import_seed.py Cxx k  -> copies /tmp/seeded_out/Cxx/{patch,demo,meta}<k>.* to seeded/Cxx-<k>/"""
import json, os, shutil, sys
prop, k = sys.argv[1], sys.argv[2]
src = "/tmp/seeded_out/%s" % prop
dst = os.path.join(os.path.dirname(os.path.dirname(os.path.abspath(__file__))), "seeded", "%s-%s" % (prop, k))
os.makedirs(dst, exist_ok=True)
shutil.copy(os.path.join(src, "patch%s.diff" % k), os.path.join(dst, "patch.diff"))
shutil.copy(os.path.join(src, "demo%s.py" % k), os.path.join(dst, "demo.py"))
meta = json.load(open(os.path.join(src, "meta%s.json" % k)))
meta["property"] = prop
meta["demo"] = "demo.py"
meta["origin"] = "independent sub-agent given only the property text and a scratch worktree"
meta.setdefault("confirmed", {})
json.dump(meta, open(os.path.join(dst, "meta.json"), "w"), indent=1)
print(dst)
