#!/usr/bin/env python3
"""tools/import_seed.py Cxx k [--src /tmp/seeded_out] [--name Cxx-k]
copies <src>/Cxx/{patch,demo,meta}<k>.* to seeded/<name>/"""
import argparse, json, os, shutil
ap = argparse.ArgumentParser()
ap.add_argument("prop")
ap.add_argument("k")
ap.add_argument("--src", default="/tmp/seeded_out")
ap.add_argument("--name")
a = ap.parse_args()
src = os.path.join(a.src, a.prop)
name = a.name or "%s-%s" % (a.prop, a.k)
dst = os.path.join(os.path.dirname(os.path.dirname(os.path.abspath(__file__))), "seeded", name)
os.makedirs(dst, exist_ok=True)
shutil.copy(os.path.join(src, "patch%s.diff" % a.k), os.path.join(dst, "patch.diff"))
shutil.copy(os.path.join(src, "demo%s.py" % a.k), os.path.join(dst, "demo.py"))
meta = json.load(open(os.path.join(src, "meta%s.json" % a.k)))
meta["property"] = a.prop
meta["demo"] = "demo.py"
meta["origin"] = "independent sub-agent given only the property text and a scratch worktree"
json.dump(meta, open(os.path.join(dst, "meta.json"), "w"), indent=1)
print(dst)
