#!/usr/bin/env python3
"""Writes /verif/MANIFEST.json from the table below (kept valid at all times).

  python3 tools/gen_manifest.py          # write
  python3-vt tools/gen_manifest.py --validate
"""
import json
import os
import sys

VERIF = os.path.dirname(os.path.dirname(os.path.abspath(__file__)))

TRUST = ("Trusted: CPython 3.12 (sys.monitoring), the loader's origin assertion, the joblib shim, "
         "NumPy/SciPy/scikit-learn as oracles, the per-property reference implementations in vrt/props. "
         "Verdict = held on the monitored executions listed in the evidence file, not a proof.")

# property -> (category, technique, text, design_ref)
CHECKS = {
    "C20": ("exploration",
            "runtime monitor: index-provenance oracle on build_ts_X_y (coded series), attached to direct "
            "calls and to the regressors' own call path; ts_mape reference formula",
            "Every cell of the framed table is decoded back to the time index it came from and the ordering "
            "clauses are checked on all configurations of a bounded box (exhaustive for that box); "
            "ts_mape is checked against the documented ratio on generated series incl. constant ones.",
            "DESIGN.md §3 C20"),
}

CHECKS["C05"] = ("exploration",
    "runtime monitor with an exact LP oracle (scipy linprog/highs) for the pinball optimum; score compared with "
    "a reference pinball loss; weights-vs-duplication and rival-hyperplane monotonicity monitors",
    "Each generated regression problem is fitted by the real IRLS and its pinball loss compared with the exact LP "
    "optimum (relative gap <= 1e-3, worst observed gap reported); score must equal twice the mean pinball loss of the "
    "same quantile to 1e-12 on train and fresh data.",
    "DESIGN.md §3 C05")

CHECKS["C11"] = ("exploration",
    "runtime monitor: symbolic shadow exponent matrix driven by the recorded multiply() calls of the real block "
    "recurrence, compared with PolynomialFeatures.powers_; numeric differential on hostile inputs; names parsed back",
    "The recurrence is data independent, so the shadow-state monitor decides a configuration for every X in one "
    "run; all configurations of the box are enumerated (exhaustive for that box), both kinds are also compared "
    "numerically with PolynomialFeatures on 8 input classes.",
    "DESIGN.md §3 C11")

CHECKS["C14"] = ("exploration",
    "runtime differential monitor: scikit-learn's CountVectorizer/TfidfVectorizer with the same options as "
    "oracle for matrices (fit_transform, transform on another corpus), vocabulary_ via ' '.join(tuple), refusals",
    "Generated corpora (empty / one-token / shorter-than-n / repeated / stop-word / mixed-case documents) under "
    "generated option sets; every matrix cell and every vocabulary entry compared with the parent class.",
    "DESIGN.md §3 C14")

CHECKS["C13"] = ("exploration",
    "runtime monitors: round-trip oracle with an independent function table; recording regressor probe proving "
    "what the inner model was trained on; differential against the plain classifier for equivariant learners",
    "All predefined names on generated targets (NaN, both shapes); every random_state of a sweep on five label "
    "domains; a probe regressor records the target/weights it receives; predictions, probability columns and "
    "classes_ are compared with the plain classifier and with each other.",
    "DESIGN.md §3 C13")

CHECKS["C17"] = ("exploration",
    "runtime history monitor: recording base regressor on tagged rows (unique id, y=g(id), w=h(id)) reconstructs "
    "every bootstrap sample; one-sided eligibility bound (<1e-9); aggregation compared with the members' own predictions",
    "Every model's training sample is reconstructed from the probe's log: size, row/target/weight alignment, and "
    "that every training row is drawn within enough draws; predict / predict_sorted / predict_all are compared "
    "with the members' predictions on float64, float32, integer and single-row batches.",
    "DESIGN.md §3 C17")

CHECKS["C19"] = ("exploration",
    "runtime monitor with a cell-by-cell reference encoder; unseen categories planted at every (row, column) "
    "position; index kinds; options columns/remove/single/skip_errors",
    "Every cell of every transformed frame is compared with a 25-line reference encoder, including frames with an "
    "unseen category at each position in turn (must raise, or with skip_errors leave every other cell identical).",
    "DESIGN.md §3 C19")

CHECKS["C12"] = ("exploration",
    "runtime differential monitors (numpy.digitize, Tree.apply, children_left, box-vs-routing equivalence) on "
    "edge-targeted query points; ASan+UBSan build of _tree_digitize under the same workload",
    "Bins of every length in the tier's range and both directions are queried on, next to (float32 neighbours), "
    "between and beyond every edge; leaf boxes are checked as 'x in box <=> apply(x) == leaf' on threshold-targeted "
    "points for depth-first and best-first trees; sanitizer reports with an mlinsights frame count as violations.",
    "DESIGN.md §3 C12")

CHECKS["C18"] = ("exploration",
    "runtime monitors on the returned matrices (shape, [0,1], min<=mean<=max, DataFrame-vs-array under one seed, "
    "labels, unit diagonal, input bytes) and a differential monitor of r2_score_comparable vs sklearn r2_score",
    "Generated tables incl. constant, duplicated, collinear and integer columns under three models and 1-5 draws; "
    "r2_score_comparable is compared with r2_score(f(y), g(p)) on all ordered pairs of six transforms, with "
    "weights and multi-output.",
    "DESIGN.md §3 C18")

CHECKS["C06"] = ("exploration",
    "runtime post-fit invariant monitors with brute-force cityblock distances; hook on the M-step (_centers_dense) "
    "and E-step (_labels_inertia); exact differential against sklearn KMeans for norm='L2'; tie-hunt stress workload",
    "Every fitted L1 model is checked for nearest-centre labels, inertia, centre range, predict and transform on 12 "
    "hostile data classes (ties, duplicates, n==k, empty clusters, float32); ~43k (thorough ~430k) tiny fits on "
    "count tables hunt the rare tie between iterations; L2 must be array-equal to KMeans.",
    "DESIGN.md §3 C06")

CHECKS["C07"] = ("exploration",
    "runtime invariant monitors: post-fit/post-predict size, label, centre, n_iter_ and nearest-centre checks; "
    "invariants at hooks on _switch_clusters, the association functions (counters == histogram) and a logical "
    "pass counter on the association loop (bounded progress)",
    "Every residue n mod k is generated for k 1-9 on six data classes, both strategies, both initialisations and "
    "five batch sizes; hooks check the internal bookkeeping on every call; strategy 'gain' defects of the unchanged "
    "tree are known findings keyed by mechanism, any other size violation is reported.",
    "DESIGN.md §3 C07")

CHECKS["C10"] = ("exploration",
    "runtime structural monitor: independent walk of the fitted node objects; decision_path rows must be "
    "root-to-terminal chains following each node's probability, predict_proba must be the terminal classifier's "
    "probabilities (also on exact-tie rows), indices / leaves / depth invariants",
    "Every row of the training set (where fit_improve creates exact ties) and of a fresh batch is checked against "
    "an independent traversal of the node objects for generated binary problems, five label domains, three base "
    "estimators and all fit_improve_algo values.",
    "DESIGN.md §3 C10")

CHECKS["C08"] = ("exploration",
    "runtime history monitor with recording local estimators (which rows/targets/weights reached which model), "
    "independent bucket route (Tree.apply / bin edges), bucket-by-bucket recomputation of outputs, differential "
    "over n_jobs and over sys.monitoring yield-injected thread schedules (distinct interleavings reported)",
    "Every fit is reconstructed from the probes' logs: partition, one model per non-empty bucket, alignment of "
    "targets and weights, class borrowing; every output is recomputed from the bucket's model or the fallback for "
    "unseen buckets; the same fit is repeated with other n_jobs values and under perturbed schedules and must agree.",
    "DESIGN.md §3 C08")

CHECKS["C09"] = ("exploration",
    "runtime monitors on the compiled criteria through their exported accessors (all (start,pos,end) triples of small "
    "ranges, dirty-buffer histories) with NumPy/lstsq oracles; per-leaf lstsq / weighted-mean oracle for the "
    "estimator; the same workloads under an ASan+UBSan build of the extensions",
    "Exhaustive triples for n<=12 (thorough n<=24) and sampled ranges up to n=200 for three criteria x 5 target "
    "classes x 3 weight classes x 2 sample orders; ~100 (thorough ~1000) fitted trees incl. ill-conditioned and "
    "rank-deficient leaves; sanitizer reports with an mlinsights frame count as violations.",
    "DESIGN.md §3 C09")

CHECKS["C15"] = ("exploration",
    "runtime differential monitors: wrapper output vs the wrapped model's own method on the same batch; wrapped "
    "model vs directly fitted clone; fitted-state fingerprints of the original estimator before/after histories "
    "of fit/transform for all trainable x copy_estimator combinations",
    "13 wrapped model types x all their methods (+ default, + callable) on batches of 1, 2, n rows; stacks of 1-4 "
    "mixed members; TransferTransformer histories of up to 6 steps with state fingerprints of the original.",
    "DESIGN.md §3 C15")

CHECKS["C16"] = ("exploration",
    "runtime monitors over a grammar of generated pipelines: enumeration vs an independent walk, pipeline2str "
    "line/indent oracle, before/after differential and record/chain invariants for alter_pipeline_for_debugging "
    "under multi-call histories, a DOT reader (declared endpoints and ports, acyclicity, presence, reachability) "
    "with graphviz as a second opinion",
    "Programs of depth <= 3 (thorough 4) over Pipeline / FeatureUnion / ColumnTransformer (named and integer "
    "columns, remainder) / passthrough / leaf transformers / final predictor and three data schemas; only programs "
    "scikit-learn fits are judged.",
    "DESIGN.md §3 C16")

CHECKS["C01"] = ("exploration",
    "runtime history monitor with an executable model of the scikit-learn parameter contract (shadow parameter "
    "store) over generated get_params/set_params/clone histories; every advertised key of every registered "
    "configuration enumerated; behaviour differential after a parameter round trip",
    "32 exported classes x 2-4 configurations (nested estimators, stacking lists of 1/2/12 members, kwargs stores): "
    "each advertised key is set once on a fresh instance, histories of 4-12 operations are replayed against the "
    "shadow store, clones are checked for equality / unfittedness / unshared sub-estimators, and two instances "
    "with exchanged parameters are fitted on the same data.",
    "DESIGN.md §3 C01")

CHECKS["C02"] = ("fault_enumeration",
    "runtime frame monitor (deep parameter fingerprints and input bytes before/after every call, also when it "
    "raises) under enumerated fault sequences: invalid-data classes, k-th inner estimator failing (probe "
    "estimators, serial and threaded), and every fallible call site of fit found by a sys.monitoring census and "
    "failed through a LINE-event failpoint; each fault followed by refit-vs-fresh-object atomicity checks",
    "For 23 fittable classes x their configurations: one clean fit and every output method under the frame monitor; "
    "14 invalid-data classes; every k for the inner estimators of 10 meta-estimators; the fault-site census is "
    "recomputed from the current tree on every run and written to the evidence (quick: all sites of the two "
    "anchored fits, a sample elsewhere; thorough: all sites, first and last hit).",
    "DESIGN.md §3 C02")

CHECKS["C03"] = ("exploration",
    "runtime history monitor: refit-vs-fresh-instance differential on public outputs and on a deep structural "
    "diff of the fitted state (incl. the set of fitted attributes); same-seed determinism, also under "
    "yield-injected thread schedules; global-seed independence where an integer random_state is documented",
    "23 fittable classes x configurations x histories {AB, A-query-B, ABA, B-query-A} on structurally different "
    "training sets x 3 (thorough 12) seeds; thread-parallel configurations are refitted 6 times under perturbed "
    "schedules.",
    "DESIGN.md §3 C03")

CHECKS["C04"] = ("exploration",
    "runtime differential monitors: batch vs single rows / random subsets / permutation / repeated call for every "
    "row-wise method, fitted-state fingerprints before/after every call, pickle and clone_with_fitted_parameters "
    "round trips; the documented balanced-prediction exception is monitored and recorded; deep copies of the "
    "compiled criteria run under ASan",
    "22 fitted classes x configurations x two training sets x label sets, queried on batches with training rows, "
    "perturbed rows, far rows (unseen buckets / cells / leaves), exact duplicates and single rows.",
    "DESIGN.md §3 C04")

PENDING = {}

# what rounds 3-6 of independent seeded changes added to each check (appended to the technique text)
ADDED = {
    "C01": "histories with refused set_params calls; an untouched witness instance; None / NumPy-scalar values; refused calls mid-history, two set_params in a row, clones stored by identity, both prefixed keys of one name in one call, keywords named like the store's own methods, identity of the values that were not given, object-valued keywords, ensembles inside the wrappers, behaviour at the end of every history and after half-applied refusals (component + nested key it lacks), nested-list init, a keyword named like the indexed keys",
    "C02": "20 invalid-input classes incl. unconvertible weights; k-th-fit faults of inner estimators below the root; KeyboardInterrupt as a fault, weight classes with a zero-weight blob, weighted score leaves the weights alone, parameters unchanged by refused calls, verbose='tqdm', refused transforms of frames lacking a fitted column, float thresholds, tables with as many rows as columns, SGD-family inner estimators, pre-tokenised corpora, the differencing transformer used directly",
    "C03": "histories with a refused fit, DataFrames with other column names, other values of the same shape, a "
           "second instance fitted in between, reflected accessors called between fits, a fit under the poisoned "
           "allocator; weighted histories, an interrupted fit, two fits in two threads under yield injection, a refitted shallow copy, a PYTHONHASHSEED probe in two processes, another clusterer kind between fits, the smallest training set a fresh instance accepts, a warm-start learner in a trainable TransferTransformer, verbose parallel members, the same set fitted under another global seed first, an unseeded init-sensitive clusterer",
    "C04": "accessor purity, float labels, a buffer refilled in place, a float32 / Fortran batch served in between, "
           "outputs under the poisoned allocator; rows on the split thresholds and half a float32 ulp away, earlier single-row results kept, a second life with pickled copies, models whose local estimators refuse single rows, upstream tests as a row-wise workload, batches sorted by a feature / by the output (whole, with holes, two ends), histories mixing the methods around a refused call and a named frame, exact Manhattan ties judged, the batch column-major / strided, bitwise equality for ExtendedFeatures",
    "C05": "scale classes with scale-relative slack (LP optimum taken at unit scale), copy_X=False, strict weighted "
           "normalisation (integer weights = repeated rows for score), layouts, set_params / NumPy-scalar configuration; boolean features with fractional weights, two fits of the same size in two threads, unsigned integer features, a refused refit under the other fit_intercept, rows of weight 0 with sentinel targets, frames on a shuffled index with targets on the range index (the converged refit keeps the containers)",
    "C06": "refused fit under the other norm between two calls, scale classes, fit_transform, layouts, "
           "set_params / NumPy-scalar configuration; callable / ndarray init (a view included), RandomState objects and the global generator as random_state, an empty cluster away from the origin, fit_transform / fit_predict entry points with weights, n_init='auto', algorithm='elkan'",
    "C07": "an earlier life with strategy='weights', layouts, integer data, set_params / NumPy-scalar configuration; batches above 256 rows gathered round one centre, max_iter 1 and 3, NumPy booleans, 17-26 clusters",
    "C08": "Series targets / weights with permuted index, refit refused by the binner, local models keep their own "
           "rows (reference + copy), layouts, set_params configuration; wide discretizers (more than 53 one-hot columns), a local classifier whose predict is not the arg max of its probabilities, a local regressor that answers NaN, the only row of an unseen bucket first in its batch",
    "C09": "tiny / huge targets with relative slack, rank-deficient designs, dirtying init with another order and "
           "other weights, training dtypes and layouts; best-first growth, epoch-second magnitudes, DataFrame / list batches, weights after no weights on one criterion object, a refitted shallow copy, improvement at boundary positions visited forwards and backwards, strided weight / order views, residual-relative slack for the linear criterion on offset targets, fractional min_samples_leaf, a refused fit of the same object before the fit under test",
    "C10": "exact predict rule on the model's own probabilities (ties included), float32 features, frames with a "
           "permuted index at fit and predict time, set_params / NumPy-scalar configuration; labels of unequal length and booleans, three refused fits then the same answers, frames with the training columns in another order, an intercept-free node classifier, far rows for which an inner node answers NaN",
    "C11": "poisoned allocator on every numeric comparison, all-zero columns, 4097 / 5000-row matrices, refused "
           "calls and refused fits inside histories, a buffer refilled in place; hyper-parameters compared around refused fits, earlier single-row results kept, kind switched without a refit, fits refused because of a parameter and repaired, DataFrame fits inside histories, the first transform after a fit aborted half-way, degree 0",
    "C12": "integer bins of every width and signedness, lists and views, the helpers re-checked after a refit of the "
           "same estimator, trees trained with missing values, a buffer refilled in place; NaN and +-max(float32) query points, infinite and out-of-float32 edges, both directions in one process, a tree deeper than the recursion limit, the returned range overwritten by the caller, precomputed parents while another tree is inspected, a tree with leaf ids beyond 65 535",
    "C13": "refit refused by the inner classifier, one transformer object shared by two models, label matrices in "
           "C / Fortran / transposed layouts and strided label vectors; targets of 1e-9 .. 1e-20 for log1p / expm1, labels of unequal length, the far end of the domain (exponents up to 709.7, arguments up to 1.6e308), the reciprocal of the reciprocal, codes in narrow integer types, 64-bit labels, set_params without a refit, one constant weight other than 1",
    "C14": "the same vectorizer objects reconfigured with set_params and refitted three times; stop lists with multi-word entries, the stop list object mutated in place between fits, tokens whose case folding differs from their lower case, n-gram lower bound 0, continuation tokens (mp / mp3 / mp_3), documents as bytes and as files, refit after a refused transform",
    "C15": "call sequences with refused calls and refits, wrapped estimator refitted in place, (n, 1) targets, "
           "wrapped estimators trained on DataFrames, original compared even when fit raises; sparse outputs, callables bound to another trained object, batches with a NaN through stackings of tolerant and strict members, frozen transfers of estimators without n_features_in_, weights through a stacking to transformer members, one model object listed twice under two methods, the wrapped estimator updated in place between two transfers",
    "C16": "deep copy of an altered pipeline fitted again, a refused second alteration, refused inputs given to the "
           "altered pipeline and to an untouched twin; column selections as arrays / Index / tuples, negative positions, wide tables, a refused predict followed by the other methods, pipelines whose alteration is refused midway, batches given by keyword, text pipelines fed lists, tuples, generators and iterators, ColumnTransformer entries with an empty selection",
    "C17": "pandas and CSR containers, refit asked about the same batch objects, a buffer refilled in place, members "
           "keep their own rows, base regressors that cannot take weights, layouts, set_params configuration; a base regressor answering NaN outside its ids, tail tests for draws with replacement, a refused refit with another number of members, predictions under a process-based joblib backend, tiny training sets with enough members for the tail tests, members on zero rows",
    "C18": "object / float32 columns, permuted index, warm_start ensembles vs the same without, a buffer refilled in "
           "place; models carrying a generator object, a stateful standardiser pair (order of tr / inv_tr), axes of the caller's frame, callables that share the name of a predefined function, transform_output=pandas, labels of mixed types, pandas containers with pandas-minded transformations, tables of two to four rows, the same whole-vector callable on both sides",
    "C19": "three spellings of a missing cell, numeric-dtype categories, a column without category at fit, "
           "narrow-then-full / refused-then-full / clone-of-fitted histories, transform after refused calls; int64 identifiers above 2**53, unseen falsy values, NumPy boolean flags, category dtype with unused declared levels, batches without rows, two columns with the same vocabulary and a removed modality, integer codes -1 / -2",
    "C20": "memory layouts of series / exogenous block / weights, one model object re-parametrised between calls, "
           "the empty-table boundary and every call under the poisoned allocator; series and exogenous blocks with missing observations, ts_mape argument purity, ts_mape under sklearn assume_finite=True, same_rows given as NumPy bool / integer, models with an earlier fitted life, observed series in pandas containers, tables of an earlier call kept, naive forecast with holes, lag windows of 9 and 12",
}


def manifest():
    ids = ["C%02d" % i for i in range(1, 21)]
    checks = []
    for pid in ids:
        if pid not in CHECKS:
            continue
        cat, tech, text, ref = CHECKS[pid]
        checks.append({
            "property_id": pid,
            "quick_cmd": "./check %s --tier quick" % pid,
            "thorough_cmd": "./check %s --tier thorough" % pid,
            "evidence_file": "/verif/evidence/%s.json" % pid,
            "replay_cmd_template": "./check %s --replay {path}" % pid,
            "engine": "vrt",
            "level_claimed": {"category": cat, "text": text, "design_ref": ref},
            "level_note": TRUST,
            "technique": tech + ("; workloads widened with: " + ADDED[pid] if pid in ADDED else ""),
        })
    na = [{"property_id": pid, "reason": PENDING.get(pid, "check not built yet in this round; "
           "runtime monitoring applies (see DESIGN.md §3), the property is simply not claimed yet")}
          for pid in ids if pid not in CHECKS]
    return {
        "version": 1,
        "setup_cmd": "/venv/bin/python -m vrt.build_ext plain asan",
        "hooks": {
            "guard": "MLINSIGHTS_VERIF",
            "enable": "no source hook exists: monitors are attached from the harness (class/module attribute "
                      "wrapping, probe estimators, sys.monitoring); the guard name is reserved",
            "baseline_off_cmd": "cd /repo && /venv/bin/python -m pytest -ra -q -p no:cacheprovider "
                                "--timeout=900 --continue-on-collection-errors "
                                "--junitxml=/verif/.work/baseline.junit.xml",
            "source_commits": [],
            "add_only": True,
        },
        "engines": [{
            "name": "vrt", "path": "/verif/vrt",
            "serves_properties": [c["property_id"] for c in checks],
            "kind_free_text": "runtime monitoring: monitors/oracles on the real code under generated, hostile "
                              "and fault-injected workloads; ASan/UBSan builds of the Cython extensions",
        }],
        "checks": checks,
        "not_applicable": na,
        "notes": "Runtime monitoring and sanitizers only. exit 0 held-on-observed / 1 VIOLATION / 2 INCONCLUSIVE. "
                 "known_findings.json lists genuine defects kept as findings and the fix: commits made in /repo.",
    }


def main():
    m = manifest()
    path = os.path.join(VERIF, "MANIFEST.json")
    if "--validate" in sys.argv:
        import jsonschema
        with open("/root/.vp/MANIFEST.schema.json") as f:
            schema = json.load(f)
        with open(path) as f:
            jsonschema.validate(json.load(f), schema)
        with open("/root/.vp/EVIDENCE.schema.json") as f:
            es = json.load(f)
        n = 0
        for c in m["checks"]:
            ef = c["evidence_file"]
            if os.path.exists(ef):
                with open(ef) as f:
                    jsonschema.validate(json.load(f), es)
                n += 1
        print("MANIFEST valid; %d evidence files valid" % n)
        return
    with open(path, "w") as f:
        json.dump(m, f, indent=1)
        f.write("\n")
    print("wrote", path, "checks:", [c["property_id"] for c in m["checks"]])


if __name__ == "__main__":
    main()
