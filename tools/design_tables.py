#!/usr/bin/env python3
"""Regenerates the seeds table of DESIGN.md (between the seeds-table markers) from seeded/*/meta.json and
seeded/REGRESSION.json (written by tools/seed_regression.py without arguments)."""
import glob, json, os
V = os.path.dirname(os.path.dirname(os.path.abspath(__file__)))
reg = json.load(open(os.path.join(V, "seeded", "REGRESSION.json")))
rows = ["| seed | prop | origin | what the change does | detected | first keys reported |", "|---|---|---|---|---|---|"]
nd = nt = 0
for d in sorted(glob.glob(os.path.join(V, "seeded", "*", "meta.json"))):
    name = os.path.basename(os.path.dirname(d))
    m = json.load(open(d))
    r = reg.get(name, {})
    origin = "revert of fix" if "revert" in name else "sub-agent"
    summ = (m.get("summary") or "").replace("\n", " ").replace("|", "/")
    if "revert" in name:
        summ = summ.split("  ")[0]
    if m.get("obsolete"):
        det = "obsolete"
    elif name not in reg:
        det = "not run"
    else:
        det = "yes" if r.get("detected") else "**NO**"
        nt += 1
        nd += bool(r.get("detected"))
    keys = ", ".join("`%s`" % k.split("/", 1)[1] for k in r.get("keys", [])[:2]) or "-"
    rows.append("| `%s` | %s | %s | %s | %s | %s |" % (name, m["property"], origin, summ[:140], det, keys))
table = "\n".join(rows) + "\n\n%d of %d seeds detected in the last full run (obsolete seeds excluded).\n" % (nd, nt)
p = os.path.join(V, "DESIGN.md")
s = open(p).read()
a = s.index("<!-- BEGIN seeds-table")
a = s.index("\n", a) + 1
b = s.index("<!-- END seeds-table -->")
open(p, "w").write(s[:a] + table + s[b:])
print("%d/%d" % (nd, nt))
