#!/usr/bin/env python3
"""Runs every seeded change against its property's quick check (in parallel) and prints a table.
   tools/seed_regression.py [--jobs 4] [--tier quick] [pattern]"""
import glob, json, os, subprocess, sys, re
from concurrent.futures import ThreadPoolExecutor
V = os.path.dirname(os.path.dirname(os.path.abspath(__file__)))
import argparse
ap = argparse.ArgumentParser()
ap.add_argument("patterns", nargs="*")
ap.add_argument("--jobs", type=int, default=3)
ap.add_argument("--tier", default="quick")
a_ = ap.parse_args()
args, jobs, tier = a_.patterns, a_.jobs, a_.tier
seeds = sorted(d for d in glob.glob(os.path.join(V, "seeded", "*")) if os.path.exists(os.path.join(d, "patch.diff")))
if args:
    seeds = [s for s in seeds if any(a in s for a in args)]
obsolete = [s for s in seeds if json.load(open(os.path.join(s, "meta.json"))).get("obsolete")]
seeds = [s for s in seeds if s not in obsolete]
for s in obsolete:
    print("%-24s OBSOLETE (no longer breaks the property on the current tree, see meta.json)" % os.path.basename(s))
def run(d):
    r = subprocess.run([sys.executable, os.path.join(V, "tools", "seedtest.py"), d, "--tier", tier],
                       stdout=subprocess.PIPE, stderr=subprocess.STDOUT, text=True)
    line = [l for l in r.stdout.splitlines() if l.startswith("SEED")]
    return os.path.basename(d), (line[0] if line else r.stdout[-300:])
with ThreadPoolExecutor(max_workers=jobs) as ex:
    res = list(ex.map(run, seeds))
ok = 0
for name, line in res:
    det = "detected=yes" in line
    ok += det
    m = re.search(r"keys=(\[.*?\])", line)
    print("%-24s %s %s" % (name, "DETECTED" if det else "MISSED/ERR", (m.group(1)[:150] if m else line[:200])))
print("%d/%d detected" % (ok, len(res)))
if True:
    path_ = os.path.join(V, "seeded", "REGRESSION.json")
    # a run restricted by patterns refreshes its own entries and keeps the others
    out = json.load(open(path_)) if args and os.path.exists(path_) else {}
    for name, line in res:
        m = re.search(r"keys=(\[.*?\])", line)
        out[name] = {"detected": "detected=yes" in line, "tier": tier,
                     "keys": re.findall(r"'(C\d\d/[^']+)'", m.group(1)) if m else [], "raw": line[:300]}
    json.dump(out, open(os.path.join(V, "seeded", "REGRESSION.json"), "w"), indent=1, sort_keys=True)
