#!/bin/sh
# tools/sweep.sh <tier> <seed>...   runs every check with each seed, prints non-held verdicts
tier=$1; shift
for s in "$@"; do
  for p in 01 02 03 04 05 06 07 08 09 10 11 12 13 14 15 16 17 18 19 20; do
    out=$(VERIF_SEED=$s ./check C$p --tier $tier --no-evidence 2>&1)
    rc=$?
    if [ $rc -ne 0 ]; then echo "SWEEP seed=$s C$p tier=$tier rc=$rc"; echo "$out" | grep -E "VIOLATION|key=|INCONCLUSIVE" | cut -c1-400; fi
  done
  echo "SWEEP seed=$s tier=$tier done"
done
